"""Verification framework for Snagnar/Factompiler (property-based testing and fuzzing)."""
