"""Factorio 2.0 combinator arithmetic on signed 32-bit integers.

Written from the game's documented behaviour, not from the compiler:
  + - * wrap (two's complement); / truncates toward zero, x/0 = 0;
  % has the sign of the dividend, x%0 = 0; ** is repeated wrapping multiplication
  (exponent >= 0); << and >> use the low 5 bits of the count in-game -- the properties only
  state counts 0..31, so anything else raises Unmodelled; >> is arithmetic;
  AND OR XOR are bitwise on the two's complement representation.
"""

INT_MIN = -(2**31)
INT_MAX = 2**31 - 1


class Unmodelled(Exception):
    """Operand combination the properties (and therefore the model) say nothing about."""


def wrap(x: int) -> int:
    x &= 0xFFFFFFFF
    return x - 0x100000000 if x & 0x80000000 else x


def arith(op: str, a: int, b: int) -> int:
    if op == "+":
        return wrap(a + b)
    if op == "-":
        return wrap(a - b)
    if op == "*":
        return wrap(a * b)
    if op == "/":
        if b == 0:
            return 0
        if a == INT_MIN and b == -1:
            raise Unmodelled("INT_MIN / -1")
        q = abs(a) // abs(b)
        return wrap(q if (a < 0) == (b < 0) else -q)
    if op == "%":
        if b == 0:
            return 0
        if a == INT_MIN and b == -1:
            raise Unmodelled("INT_MIN % -1")
        r = abs(a) % abs(b)
        return wrap(r if a >= 0 else -r)
    if op in ("**", "^"):
        if b < 0:
            raise Unmodelled("negative exponent")
        return wrap(pow(a, b, 1 << 32))
    if op == "<<":
        if not 0 <= b <= 31:
            raise Unmodelled("shift count outside 0..31")
        return wrap(a << b)
    if op == ">>":
        if not 0 <= b <= 31:
            raise Unmodelled("shift count outside 0..31")
        return wrap(a >> b)
    if op == "AND":
        return wrap(a & b)
    if op == "OR":
        return wrap(a | b)
    if op == "XOR":
        return wrap(a ^ b)
    raise ValueError(f"unknown arithmetic op {op!r}")


def compare(op: str, a: int, b: int) -> bool:
    if op in ("=", "=="):
        return a == b
    if op in ("!=", "≠"):
        return a != b
    if op == "<":
        return a < b
    if op in ("<=", "≤"):
        return a <= b
    if op == ">":
        return a > b
    if op in (">=", "≥"):
        return a >= b
    raise ValueError(f"unknown comparator {op!r}")
