"""Canonical form of a blueprint's logical circuit (C19, C07): positions, entity numbers and poles erased;
entities labelled by their full configuration and refined by Weisfeiler-Lehman rounds over the network
hypergraph. Unequal canonical forms prove the circuits differ; equal forms can (rarely) be a WL collision,
which only errs toward 'equal'."""

from __future__ import annotations

import hashlib
import json

from . import geom


import re

_FILE = re.compile(r"^\[[^\]:]*:?(\d*)\]")


def _h(obj) -> str:
    return hashlib.sha1(json.dumps(obj, sort_keys=True, default=str).encode()).hexdigest()[:16]


def canonical(bp, rounds: int = 4, keep_description: bool = True):
    b = bp.get("blueprint") or bp
    ents = b.get("entities") or []
    wires = b.get("wires") or []
    by_num = {e["entity_number"]: e for e in ents}
    is_pole = {n: geom.is_pole(e["name"]) for n, e in by_num.items()}
    parent = {}

    def node(n, c):
        col = "r" if c in (1, 3) else "g"
        if is_pole[n]:
            return (n, "p", col)
        return (n, "o" if c in (3, 4) else "i", col)

    def find(x):
        parent.setdefault(x, x)
        while parent[x] != x:
            parent[x] = parent[parent[x]]
            x = parent[x]
        return x

    for e1, c1, e2, c2 in wires:
        if c1 >= 5 or c2 >= 5:
            continue
        a, b2 = find(node(e1, c1)), find(node(e2, c2))
        if a != b2:
            parent[a] = b2
    nets = {}
    for x in list(parent):
        if is_pole[x[0]]:
            continue
        nets.setdefault(find(x), []).append(x)
    label = {}
    for n, e in by_num.items():
        if is_pole[n]:
            continue
        cfg = {k: v for k, v in e.items() if k not in ("entity_number", "position")}
        if not keep_description:
            cfg.pop("player_description", None)
        elif isinstance(cfg.get("player_description"), str):
            # the source file's name is an invocation detail, the line is not
            cfg["player_description"] = _FILE.sub(r"[\1]", cfg["player_description"])
        label[n] = _h(cfg)
    for _ in range(rounds):
        new = {}
        for n in label:
            sig = []
            for root, members in nets.items():
                mine = [m for m in members if m[0] == n]
                if not mine:
                    continue
                others = sorted((label[m[0]], m[1]) for m in members if m[0] != n)
                for m in mine:
                    sig.append((m[1], m[2], others))
            new[n] = _h([label[n], sorted(sig)])
        label = new
    ent_ms = sorted(label.values())
    net_ms = sorted(_h(sorted((label[m[0]], m[1], m[2]) for m in members)) for members in nets.values() if len(members) > 1)
    return {"entities": ent_ms, "networks": net_ms}


def diff(ca, cb):
    ea, eb = list(ca["entities"]), list(cb["entities"])
    only_a = [x for x in ea if ea.count(x) > eb.count(x)]
    only_b = [x for x in eb if eb.count(x) > ea.count(x)]
    return {"entities_only_in_A": len(only_a), "entities_only_in_B": len(only_b),
            "networks_A": len(ca["networks"]), "networks_B": len(cb["networks"]),
            "networks_equal": ca["networks"] == cb["networks"]}


def describe_config_diff(bpa, bpb):
    """Human-readable hint: configurations (without descriptions/positions) present in only one blueprint."""
    def cfgs(bp):
        b = bp.get("blueprint") or bp
        out = []
        for e in b.get("entities") or []:
            if geom.is_pole(e["name"]):
                continue
            cfg = {k: v for k, v in e.items() if k not in ("entity_number", "position")}
            if isinstance(cfg.get("player_description"), str):
                cfg["player_description"] = _FILE.sub(r"[\1]", cfg["player_description"])
            out.append(json.dumps(cfg, sort_keys=True))
        return out

    a, b = cfgs(bpa), cfgs(bpb)
    return {"only_A": [x[:300] for x in a if a.count(x) > b.count(x)][:3], "only_B": [x[:300] for x in b if b.count(x) > a.count(x)][:3]}
