"""Compile wrapper: runs the real compiler from /repo's working tree, in-process or as a CLI
subprocess, with the layout solver's schedule owned by the harness (DESIGN.md 2.1, 2.2)."""

from __future__ import annotations

import base64
import contextlib
import json
import logging
import os
import subprocess
import sys
import warnings
import zlib
from dataclasses import dataclass, field

REPO = os.environ.get("FV_REPO", "/repo")
if REPO not in sys.path:
    sys.path.insert(0, REPO)

PY = os.environ.get("FV_PYTHON", "/venv/bin/python")


@dataclass
class Result:
    status: str  # "accepted" | "rejected" | "crashed"
    bp: dict | None = None
    text: str | None = None  # raw text returned (json or blueprint string)
    message: str = ""
    exc_type: str = ""
    plan: object = None
    diagnostics: list = field(default_factory=list)

    @property
    def accepted(self) -> bool:
        return self.status == "accepted"


@dataclass(frozen=True)
class Schedule:
    """Layout-solver schedule owned by the harness."""

    workers: int = 1
    seed: int = 0
    det_time: float | None = 0.05  # None => leave production time limits alone
    untouched: bool = False  # True => do not patch the solver at all
    fail_strategies: tuple = ()  # indices of _solve_with_strategy calls forced to "no solution"
    fail_routing: int = 0  # first n plan_connections calls report failure (after running)

    def to_json(self):
        return {
            "workers": self.workers, "seed": self.seed, "det_time": self.det_time,
            "untouched": self.untouched, "fail_strategies": list(self.fail_strategies),
            "fail_routing": self.fail_routing,
        }

    @staticmethod
    def from_json(d):
        if d is None:
            return Schedule()
        return Schedule(
            workers=d.get("workers", 1), seed=d.get("seed", 0), det_time=d.get("det_time", 0.05),
            untouched=d.get("untouched", False),
            fail_strategies=tuple(d.get("fail_strategies", ())),
            fail_routing=d.get("fail_routing", 0),
        )


DEFAULT_SCHEDULE = Schedule()

_state = {"schedule": DEFAULT_SCHEDULE, "strategy_calls": 0, "routing_calls": 0,
          "installed": False, "unavailable": [], "stats": {}}


def _install_patches():
    """Wrap (never edit) the compiler's solver construction and the two fault points."""
    if _state["installed"]:
        return
    _state["installed"] = True
    logging.disable(logging.CRITICAL)
    warnings.filterwarnings("ignore")
    try:
        from dsl_compiler.src.layout import integer_layout_solver as ils

        real_cp = ils.cp_model

        class _Solver(real_cp.CpSolver):
            def Solve(self, model, cb=None):  # noqa: N802
                s = _state["schedule"]
                if not s.untouched:
                    self.parameters.num_workers = s.workers
                    self.parameters.random_seed = s.seed
                    if s.det_time is not None:
                        self.parameters.max_deterministic_time = s.det_time
                if cb is None:
                    return super().Solve(model)
                return super().Solve(model, cb)

        class _Shim:
            def __getattr__(self, name):
                return getattr(real_cp, name)

        shim = _Shim()
        shim.CpSolver = _Solver
        ils.cp_model = shim
    except Exception as exc:  # refactored away: continue without schedule control
        _state["unavailable"].append(f"solver:{type(exc).__name__}")
    try:
        from dsl_compiler.src.layout import integer_layout_solver as ils

        real_sws = ils.IntegerLayoutEngine._solve_with_strategy

        def sws(self, strategy, *a, **k):
            idx = _state["strategy_calls"]
            _state["strategy_calls"] += 1
            _state["stats"]["strategy_calls"] = _state["strategy_calls"]
            if idx in _state["schedule"].fail_strategies:
                res = real_sws(self, strategy, *a, **k)
                _state["stats"]["forced_strategy_fail"] = _state["stats"].get("forced_strategy_fail", 0) + 1
                return ils.OptimizationResult(
                    positions={}, violations=999, total_wire_length=0, success=False,
                    strategy_used=getattr(res, "strategy_used", "forced"), solve_time=0.0,
                ) if _opt_result_fields(ils) else res
            return real_sws(self, strategy, *a, **k)

        ils.IntegerLayoutEngine._solve_with_strategy = sws
        if hasattr(ils.IntegerLayoutEngine, "_optimize_with_decomposition"):
            real_dec = ils.IntegerLayoutEngine._optimize_with_decomposition

            def dec(self, *a, **k):
                _state["stats"]["decomposition"] = _state["stats"].get("decomposition", 0) + 1
                return real_dec(self, *a, **k)

            ils.IntegerLayoutEngine._optimize_with_decomposition = dec
        real_fb = ils.IntegerLayoutEngine._fallback_grid_layout

        def fb(self, *a, **k):
            _state["stats"]["fallback_grid"] = _state["stats"].get("fallback_grid", 0) + 1
            return real_fb(self, *a, **k)

        ils.IntegerLayoutEngine._fallback_grid_layout = fb
    except Exception as exc:
        _state["unavailable"].append(f"strategy:{type(exc).__name__}")
    try:
        from dsl_compiler.src.layout import connection_planner as cpl

        real_pc = cpl.ConnectionPlanner.plan_connections

        def pc(self, *a, **k):
            idx = _state["routing_calls"]
            _state["routing_calls"] += 1
            res = real_pc(self, *a, **k)
            _state["stats"]["routing_calls"] = _state["routing_calls"]
            if res is False:
                _state["stats"]["real_routing_fail"] = _state["stats"].get("real_routing_fail", 0) + 1
            if idx < _state["schedule"].fail_routing:
                _state["stats"]["forced_routing_fail"] = _state["stats"].get("forced_routing_fail", 0) + 1
                return False
            return res

        cpl.ConnectionPlanner.plan_connections = pc
    except Exception as exc:
        _state["unavailable"].append(f"routing:{type(exc).__name__}")


def _opt_result_fields(ils) -> bool:
    import dataclasses

    try:
        names = {f.name for f in dataclasses.fields(ils.OptimizationResult)}
    except Exception:
        return False
    return {"positions", "violations", "total_wire_length", "success", "strategy_used", "solve_time"} <= names


def fault_injection_unavailable():
    return list(_state["unavailable"])


def last_stats() -> dict:
    return dict(_state["stats"])


DIAGNOSED = (RuntimeError, SyntaxError)


def classify_exception(exc: BaseException) -> str:
    """'rejected' = the compiler diagnosed an error in the program; 'crashed' = anything else."""
    if isinstance(exc, SyntaxError):
        return "rejected"
    if isinstance(exc, RuntimeError):
        msg = str(exc)
        if msg.startswith("[") or "Unexpected error parsing" in msg or "Parse error" in msg:
            return "rejected"
        return "crashed"
    if isinstance(exc, ValueError) and str(exc).strip():
        # the analyser reports some user errors (loop bounds) by raising ValueError with a message
        return "rejected"
    return "crashed"


def compile_source(
    src: str,
    optimize: bool = True,
    poles: str | None = None,
    schedule: Schedule | None = None,
    use_json: bool = True,
    source_name: str = "<string>",
    name: str | None = None,
    capture_plan: bool = False,
    entry: str = "cli",
) -> Result:
    """Compile in-process exactly as the CLI does (dsl_compiler.cli.compile_dsl_source)."""
    _install_patches()
    _state["schedule"] = schedule or DEFAULT_SCHEDULE
    _state["strategy_calls"] = 0
    _state["routing_calls"] = 0
    _state["stats"] = {}
    plan_box = []
    ctx = contextlib.nullcontext()
    if capture_plan:
        ctx = _capture_plan(plan_box)
    try:
        with ctx, open(os.devnull, "w") as devnull, contextlib.redirect_stdout(devnull), \
                contextlib.redirect_stderr(devnull):
            if entry == "cli":
                from dsl_compiler.cli import compile_dsl_source

                ok, text, diags = compile_dsl_source(
                    src, source_name=source_name, program_name=name, optimize=optimize,
                    power_pole_type=poles, use_json=use_json, log_level="error",
                )
            else:
                raise ValueError(entry)
    except RecursionError as exc:
        return Result("crashed", message=f"RecursionError: {exc}"[:300], exc_type="RecursionError")
    except Exception as exc:  # noqa: BLE001 - classification is the point
        status = classify_exception(exc)
        return Result(status, message=f"{type(exc).__name__}: {exc}"[:600], exc_type=type(exc).__name__)
    if not ok:
        return Result("rejected", message=str(text), diagnostics=list(diags or []))
    try:
        bp = json.loads(text) if use_json else decode_blueprint_string(text)
    except Exception as exc:  # noqa: BLE001
        return Result("crashed", text=text, message=f"undecodable output: {exc}", exc_type=type(exc).__name__)
    return Result("accepted", bp=bp, text=text, diagnostics=list(diags or []),
                  plan=plan_box[0] if plan_box else None)


@contextlib.contextmanager
def _capture_plan(box):
    from dsl_compiler.src.emission import emitter as em

    real = em.BlueprintEmitter.emit_from_plan

    def wrapped(self, layout_plan):
        box.append(layout_plan)
        return real(self, layout_plan)

    em.BlueprintEmitter.emit_from_plan = wrapped
    try:
        yield
    finally:
        em.BlueprintEmitter.emit_from_plan = real


def decode_blueprint_string(text: str) -> dict:
    text = text.strip()
    if not text or text[0] != "0":
        raise ValueError("blueprint string must start with version byte '0'")
    return json.loads(zlib.decompress(base64.b64decode(text[1:])).decode("utf-8"))


def looks_like_blueprint(text: str) -> bool:
    """True if the text (or any line/token of it) decodes to something with a 'blueprint' key."""
    if not text:
        return False
    cands = [text.strip()] + [ln.strip() for ln in text.splitlines() if ln.strip()]
    for c in cands:
        try:
            d = json.loads(c)
            if isinstance(d, dict) and ("blueprint" in d or "entities" in d):
                return True
        except Exception:  # noqa: BLE001
            pass
        try:
            d = decode_blueprint_string(c)
            if isinstance(d, dict):
                return True
        except Exception:  # noqa: BLE001
            pass
    return False


def run_cli(args: list[str], entry: str = "module", cwd: str | None = None, env_extra: dict | None = None,
            timeout: float = 300.0):
    """Run a real entry point as a subprocess. entry: 'module' (python -m dsl_compiler),
    'launcher' (what the factompile console script does), 'compile_py' (python compile.py)."""
    env = dict(os.environ)
    env["PYTHONPATH"] = REPO + os.pathsep + env.get("PYTHONPATH", "")
    env.setdefault("PYTHONHASHSEED", "0")
    if env_extra:
        env.update(env_extra)
    if entry == "module":
        cmd = [PY, "-m", "dsl_compiler"] + args
    elif entry == "launcher":
        cmd = [PY, "-c", "import sys; from dsl_compiler.cli import main; sys.exit(main())"] + args
    elif entry == "compile_py":
        cmd = [PY, os.path.join(REPO, "compile.py")] + args
    else:
        raise ValueError(entry)
    p = subprocess.run(cmd, cwd=cwd or REPO, env=env, capture_output=True, text=True, timeout=timeout)
    return p.returncode, p.stdout, p.stderr
