"""Hypothesis strategies: grammar core shared by the per-property domains (DESIGN.md section 6).

Every random choice goes through `draw`, so cases shrink and replay.
"""

from __future__ import annotations

from hypothesis import strategies as st

from .alu import INT_MAX, INT_MIN
from .lang import (
    AllOf, AnyOf, Assign, Bin, BLit, BSel, Cond, Decl, Num, Paren, Place, Program, Proj, PropRead, Ref,
    SigLit, TypeOf, Un,
)

ITEMS = ["iron-plate", "copper-plate", "coal", "iron-ore", "steel-plate", "electronic-circuit", "stone"]
FLUIDS = ["water", "crude-oil", "steam"]
VIRT_LATE = ["signal-X", "signal-Y", "signal-Z", "signal-red", "signal-green", "signal-check", "signal-info"]
VIRT_EARLY = ["signal-A", "signal-B", "signal-C", "signal-0", "signal-1"]

BOUNDARY = [0, 1, -1, 2, -2, 3, 5, 7, 10, 31, 32, 33, 100, 255, 256, 1000, 32767, 32768, 65535, 65536,
            INT_MAX, INT_MIN, INT_MAX - 1, INT_MIN + 1, 46341, -46341, 1 << 30, -(1 << 30)]


def int32():
    return st.one_of(
        st.sampled_from(BOUNDARY),
        st.integers(-20, 20),
        st.integers(-1000, 1000),
        st.integers(INT_MIN, INT_MAX),
    )


def small_int():
    return st.one_of(st.integers(-12, 12), st.sampled_from([0, 1, 2, 3, -1, 10, 100, 255]))


def num(strategy=None, bases=True):
    @st.composite
    def _n(draw):
        v = draw(small_int() if strategy is None else strategy)
        base = 10
        if bases and v >= 0 and draw(st.integers(0, 5)) == 0:
            base = draw(st.sampled_from([2, 8, 16]))
        return Num(v, base)

    return _n()


class Palette:
    def __init__(self, early: bool):
        self.types = ITEMS + FLUIDS + VIRT_LATE + (VIRT_EARLY if early else [])


ARITH_SAFE = ["+", "-", "*", "/", "%", "AND", "OR", "XOR"]
CMPS = ["==", "!=", "<", "<=", ">", ">="]


class Scope:
    """What a generated expression may refer to."""

    def __init__(self):
        self.signals: list[str] = []  # Signal names (typed or untyped)
        self.typed: dict[str, bool] = {}  # name -> has an explicit / known type
        self.ints: list[str] = []
        self.cmp_names: list[str] = []  # names bound to a comparison
        self.bundles: list[str] = []
        self.used: set[str] = set()
        self.linear = False  # steer: every name is consumed by at most one combinator
        self.consumed: set[str] = set()
        self.steered = 0

    def pick_signal(self, draw, pool=None):
        """Choose a Signal name to reference; in linear mode a name is handed out once."""
        pool = list(self.signals if pool is None else pool)
        if self.linear:
            free = [n for n in pool if n not in self.consumed]
            if len(free) < len(pool):
                self.steered += 1
            if not free:
                return None
            n = draw(st.sampled_from(free))
            self.consumed.add(n)
            return n
        if not pool:
            return None
        return draw(st.sampled_from(pool))

    def fresh(self, draw, prefix: str) -> str:
        i = 0
        while True:
            i += 1
            n = f"{prefix}{i}"
            if n not in self.used:
                self.used.add(n)
                return n


class ExprGen:
    """Stateless scalar expressions over a scope. `profile` tunes the mix per property."""

    def __init__(self, scope: Scope, palette: Palette, *, allow_logic=True, allow_cond=True,
                 allow_proj=True, allow_pow_shift=True, const_fold_ops=("+", "-", "*"),
                 const_range=None, allow_typeof=True):
        self.s = scope
        self.p = palette
        self.allow_logic = allow_logic
        self.allow_cond = allow_cond
        self.allow_proj = allow_proj
        self.allow_pow_shift = allow_pow_shift
        self.const_fold_ops = const_fold_ops
        self.const_range = const_range or st.integers(-30, 30)
        self.allow_typeof = allow_typeof

    # -- constants ----------------------------------------------------------------------
    def const_expr(self, draw, depth=1):
        """A compile-time integer expression kept inside a domain where every evaluation
        order / integer model agrees (C11 covers the rest)."""
        k = draw(st.integers(0, 5))
        if depth <= 0 or k <= 2:
            if self.s.ints and k == 0:
                n = self.s.pick_signal(draw, self.s.ints)
                if n is not None:
                    return Ref(n)
            return draw(num(self.const_range))
        op = draw(st.sampled_from(list(self.const_fold_ops)))
        return Bin(op, self.const_expr(draw, depth - 1), self.const_expr(draw, depth - 1))

    def type_lit(self, draw):
        typed = [n for n in self.s.signals if self.s.typed.get(n)]
        if self.allow_typeof and typed and draw(st.integers(0, 4)) == 0:
            return TypeOf(draw(st.sampled_from(typed)))
        return draw(st.sampled_from(self.p.types))

    # -- leaves -------------------------------------------------------------------------
    def leaf(self, draw, want_signal=False):
        k = draw(st.integers(0, 9))
        if self.s.signals and (k <= 5 or want_signal):
            n = self.s.pick_signal(draw)
            if n is not None:
                return Ref(n)
        if k == 6:
            return SigLit(self.type_lit(draw), self.const_expr(draw, 1))
        if self.s.ints and k == 7 and not want_signal:
            n = self.s.pick_signal(draw, self.s.ints)
            if n is not None:
                return Ref(n)
        if want_signal:
            return SigLit(self.type_lit(draw), self.const_expr(draw, 0))
        return draw(num(int32() if k == 8 else small_int()))

    # -- expressions --------------------------------------------------------------------
    def comparison(self, draw, depth):
        l = self.expr(draw, depth - 1, want_signal=True)
        r = self.expr(draw, depth - 1) if draw(st.booleans()) else draw(num(int32()))
        return Bin(draw(st.sampled_from(CMPS)), l, r)

    def condition(self, draw, depth):
        """What may stand before ':' : a comparison, an &&/|| chain of simple comparisons, or a
        name bound to a comparison."""
        k = draw(st.integers(0, 9))
        if self.s.cmp_names and k == 0:
            n = self.s.pick_signal(draw, self.s.cmp_names)
            if n is not None:
                return Ref(n)
        if k <= 6 or not self.allow_logic:
            return self.comparison(draw, min(depth, 2))
        op = draw(st.sampled_from(["&&", "||"]))
        n = draw(st.integers(2, 3))
        e = self.simple_comparison(draw)
        for _ in range(n - 1):
            e = Bin(op, e, self.simple_comparison(draw))
        return e

    def simple_comparison(self, draw):
        l = self.leaf(draw, want_signal=True)
        r = self.leaf(draw, want_signal=True) if draw(st.integers(0, 3)) == 0 else draw(num(int32()))
        return Bin(draw(st.sampled_from(CMPS)), l, r)

    def expr(self, draw, depth, want_signal=False):
        if depth <= 0:
            return self.leaf(draw, want_signal)
        k = draw(st.integers(0, 19))
        if k <= 1:
            return self.leaf(draw, want_signal)
        if k <= 8:
            op = draw(st.sampled_from(ARITH_SAFE))
            l = self.expr(draw, depth - 1, want_signal=want_signal)
            r = self.expr(draw, depth - 1)
            return Bin(op, l, r)
        if k == 9 and self.allow_pow_shift:
            op = draw(st.sampled_from(["<<", ">>", "**"]))
            l = self.expr(draw, depth - 1, want_signal=want_signal)
            if draw(st.booleans()):
                r = Num(draw(st.integers(0, 31) if op != "**" else st.integers(0, 6)))
            else:
                r = Bin("AND", self.expr(draw, depth - 1, want_signal=True), Num(31 if op != "**" else 7))
            return Bin(op, l, r)
        if k <= 11:
            return self.comparison(draw, depth)
        if k == 12 and self.allow_logic:
            op = draw(st.sampled_from(["&&", "||"]))
            if draw(st.booleans()):
                e = self.simple_comparison(draw)
                for _ in range(draw(st.integers(1, 2))):
                    e = Bin(op, e, self.simple_comparison(draw))
                return e
            return Bin(op, self.expr(draw, depth - 1, want_signal=True), self.expr(draw, depth - 1, want_signal=True))
        if k == 13:
            uop = draw(st.sampled_from(["-", "!", "-", "+"] if self.allow_logic else ["-", "+"]))
            return Un(uop, self.expr(draw, depth - 1, want_signal=True))
        if k <= 15 and self.allow_proj:
            return Proj(self.expr(draw, depth - 1), self.type_lit(draw))
        if k <= 17 and self.allow_cond:
            c = self.condition(draw, depth - 1)
            vk = draw(st.integers(0, 3))
            if vk == 0:
                v = draw(num(int32()))
            elif vk == 1 and self.s.signals and not self.s.linear:
                v = Ref(draw(st.sampled_from(self.s.signals)))
            else:
                v = self.expr(draw, depth - 1, want_signal=True)
            return Cond(c, v)
        if k == 18:
            return Paren(self.expr(draw, depth - 1, want_signal=want_signal))
        if draw(st.booleans()) and self.s.signals:
            n = self.s.pick_signal(draw)  # the same source on both operands of one combinator
            if n is not None:
                return Bin(draw(st.sampled_from(["+", "-", "*", "XOR", ">=", "!="])), Ref(n), Ref(n))
        return Bin(draw(st.sampled_from(["+", "-", "*"])), self.expr(draw, depth - 1, want_signal=want_signal),
                   self.leaf(draw))


def is_comparison(e) -> bool:
    while isinstance(e, Paren):
        e = e.e
    return isinstance(e, Bin) and e.op in CMPS


@st.composite
def scalar_program(draw, early_virtual=False, linear=False, max_stmts=8, max_depth=3, **profile):
    """Stateless program: inputs, int constants, then a DAG of Signal declarations."""
    sc = Scope()
    sc.linear = linear
    pal = Palette(early_virtual)
    g = ExprGen(sc, pal, **profile)
    stmts = []
    n_in = draw(st.integers(2, 7) if linear else st.integers(1, 4))
    same_type = draw(st.integers(0, 3)) == 0  # force same-typed operands (two-colour separation)
    shared = draw(st.sampled_from(pal.types))
    untyped_ok = draw(st.integers(0, 2)) == 0
    for _ in range(n_in):
        name = sc.fresh(draw, "in")
        if untyped_ok and draw(st.integers(0, 3)) == 0:
            stmts.append(Decl("Signal", name, draw(num(small_int()))))
            sc.typed[name] = False
        else:
            ty = shared if same_type and draw(st.booleans()) else draw(st.sampled_from(pal.types))
            stmts.append(Decl("Signal", name, SigLit(ty, draw(num(small_int())))))
            sc.typed[name] = True
        sc.signals.append(name)
    for _ in range(draw(st.integers(0, 2))):
        name = sc.fresh(draw, "k")
        stmts.append(Decl("int", name, g.const_expr(draw, 1)))
        sc.ints.append(name)
    n = draw(st.integers(1, max_stmts))
    for _ in range(n):
        name = sc.fresh(draw, "v")
        e = g.expr(draw, draw(st.integers(1, max_depth)), want_signal=True)
        stmts.append(Decl("Signal", name, e))
        sc.signals.append(name)
        sc.typed[name] = False  # conservative: .type only of declared inputs
        if is_comparison(e):
            sc.cmp_names.append(name)
    prog = Program(tuple(stmts))
    return (prog, sc.steered) if profile.get('_want_stats') else prog


@st.composite
def valuations(draw, names, n):
    out = []
    for _ in range(n):
        out.append({nm: draw(int32()) for nm in names})
    return out


@st.composite
def print_opts(draw):
    return {"word_logic": draw(st.booleans()), "full_parens": draw(st.integers(0, 4)) == 0}


__all__ = [n for n in dir() if not n.startswith("_")]
assert AllOf and AnyOf and Assign and BLit and BSel and Place and PropRead
