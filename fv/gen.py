"""Hypothesis strategies: grammar core shared by the per-property domains (DESIGN.md section 6).

Every random choice goes through `draw`, so cases shrink and replay.
"""

from __future__ import annotations

from hypothesis import strategies as st

from . import known as _known
from .alu import INT_MAX, INT_MIN
from .lang import (
    AllOf, AnyOf, Assign, Bin, BLit, BSel, Cond, Decl, Num, Paren, Place, Program, Proj, PropRead, Ref,
    SigLit, TypeOf, Un,
)

ITEMS = ["iron-plate", "copper-plate", "coal", "iron-ore", "steel-plate", "electronic-circuit", "stone"]
FLUIDS = ["water", "crude-oil", "steam"]
VIRT_LATE = ["signal-X", "signal-Y", "signal-Z", "signal-red", "signal-green", "signal-check", "signal-info"]
VIRT_EARLY = ["signal-A", "signal-B", "signal-C", "signal-0", "signal-1"]

BOUNDARY = [0, 1, -1, 2, -2, 3, 5, 7, 10, 31, 32, 33, 100, 255, 256, 1000, 32767, 32768, 65535, 65536,
            INT_MAX, INT_MIN, INT_MAX - 1, INT_MIN + 1, 46341, -46341, 1 << 30, -(1 << 30)]


def int32():
    return st.one_of(
        st.sampled_from(BOUNDARY),
        st.integers(-20, 20),
        st.integers(-1000, 1000),
        st.integers(INT_MIN, INT_MAX),
        # magnitudes whose pairwise products leave int32 (2^15 .. 2^17), either sign
        st.builds(lambda m, neg: -m if neg else m, st.integers(1 << 15, 1 << 17), st.booleans()),
    )


def small_int():
    return st.one_of(st.integers(-12, 12), st.sampled_from([0, 1, 2, 3, -1, 10, 100, 255]))


def num(strategy=None, bases=True):
    @st.composite
    def _n(draw):
        v = draw(small_int() if strategy is None else strategy)
        base = 10
        if bases and v >= 0 and draw(st.integers(0, 5)) == 0:
            base = draw(st.sampled_from([2, 8, 16]))
        return Num(v, base)

    return _n()


class Palette:
    def __init__(self, early: bool):
        self.types = ITEMS + FLUIDS + VIRT_LATE + (VIRT_EARLY if early else [])


ARITH_SAFE = ["+", "-", "*", "/", "%", "AND", "OR", "XOR"]
CMPS = ["==", "!=", "<", "<=", ">", ">="]


class Scope:
    """What a generated expression may refer to.

    Steering for the open finding 'shared-network-leak' (known_findings.json): when `steer` is
    on, a name that feeds a combinator with two or more wired sources is used nowhere else
    (state 'burned'); names feeding only single-source combinators may be shared freely.
    """

    def __init__(self):
        self.signals: list[str] = []  # Signal names (typed or untyped)
        self.typed: dict[str, bool] = {}  # name -> has an explicit / known type
        self.ints: list[str] = []
        self.cmp_names: list[str] = []  # names bound to a comparison
        self.bundles: list[str] = []
        self.used: set[str] = set()
        self.steer = False
        self.state: dict[str, str] = {}  # name -> 'shared' | 'burned'
        self.steered = 0
        self.type_of: dict[str, str] = {}  # declared input -> explicit type
        self.avoid_three_same = False  # open finding F-three-same

    def fresh(self, draw, prefix: str) -> str:
        i = 0
        while True:
            i += 1
            n = f"{prefix}{i}"
            if n not in self.used:
                self.used.add(n)
                return n

    def pick(self, draw, pool, excl: bool):
        """Choose a name to reference, respecting the steering discipline."""
        pool = list(pool)
        if not pool:
            return None
        if not self.steer:
            return draw(st.sampled_from(pool))
        if excl:
            free = [n for n in pool if n not in self.state]
        else:
            free = [n for n in pool if self.state.get(n) != "burned"]
        if len(free) < len(pool):
            self.steered += 1
        if not free:
            return None
        n = draw(st.sampled_from(free))
        self.state[n] = "burned" if excl else "shared"
        return n


class ExprGen:
    """Stateless scalar expressions over a scope. Keyword options tune the mix per property."""

    def __init__(self, scope: Scope, palette: Palette, *, allow_logic=True, allow_cond=True,
                 allow_proj=True, allow_pow_shift=True, const_fold_ops=("+", "-", "*"),
                 const_range=None, allow_typeof=True, **_ignored):
        self.s = scope
        self.p = palette
        self.allow_logic = allow_logic
        self.allow_cond = allow_cond
        self.allow_proj = allow_proj
        self.allow_pow_shift = allow_pow_shift
        self.const_fold_ops = const_fold_ops
        self.const_range = const_range or st.integers(-30, 30)
        self.allow_typeof = allow_typeof

    # -- constants ----------------------------------------------------------------------
    def const_expr(self, draw, depth=1, excl=True):
        """A compile-time integer expression kept inside a domain where every evaluation
        order / integer model agrees (C11 covers the rest)."""
        k = draw(st.integers(0, 5))
        if depth <= 0 or k <= 2:
            if self.s.ints and k == 0:
                n = self.s.pick(draw, self.s.ints, excl)
                if n is not None:
                    return Ref(n)
            return draw(num(self.const_range))
        op = draw(st.sampled_from(list(self.const_fold_ops)))
        return Bin(op, self.const_expr(draw, depth - 1, excl), self.const_expr(draw, depth - 1, excl))

    def type_lit(self, draw):
        typed = [n for n in self.s.signals if self.s.typed.get(n)]
        if self.allow_typeof and typed and draw(st.integers(0, 4)) == 0:
            return TypeOf(draw(st.sampled_from(typed)))
        untyped = [n for n in getattr(self.s, "untyped_inputs", ()) if n in self.s.signals]
        if self.allow_typeof and untyped and draw(st.integers(0, 9)) == 0:
            return TypeOf(draw(st.sampled_from(untyped)))  # the type the compiler chose for an untyped input
        return draw(st.sampled_from(self.p.types))

    # -- leaves -------------------------------------------------------------------------
    def leaf(self, draw, want_signal=False, excl=False):
        k = draw(st.integers(0, 9))
        if self.s.signals and (k <= 5 or want_signal):
            n = self.s.pick(draw, self.s.signals, excl)
            if n is not None:
                return Ref(n)
        if k == 6:
            return SigLit(self.type_lit(draw), self.const_expr(draw, 1))
        if self.s.ints and k == 7 and not want_signal:
            n = self.s.pick(draw, self.s.ints, excl)
            if n is not None:
                return Ref(n)
        if want_signal:
            return SigLit(self.type_lit(draw), self.const_expr(draw, 0))
        return draw(num(int32() if k == 8 else small_int()))

    def const_operand(self, draw):
        return draw(num(int32() if draw(st.integers(0, 3)) == 0 else small_int()))

    # -- expressions --------------------------------------------------------------------
    def comparison(self, draw, depth):
        if draw(st.booleans()):
            l = self.expr(draw, depth - 1, want_signal=True, excl=False)
            r = self.const_operand(draw)
        else:
            l = self.expr(draw, depth - 1, want_signal=True, excl=True)
            r = self.expr(draw, depth - 1, want_signal=True, excl=True)
        return Bin(draw(st.sampled_from(CMPS)), l, r)

    def condition(self, draw, depth):
        """What may stand before ':' : a comparison, an &&/|| chain of simple comparisons, or a
        name bound to a comparison.  Every leaf is exclusive (the decider also reads the value)."""
        k = draw(st.integers(0, 9))
        if self.s.cmp_names and k == 0:
            n = self.s.pick(draw, self.s.cmp_names, True)
            if n is not None:
                return Ref(n)
        if k <= 6 or not self.allow_logic:
            l = self.expr(draw, min(depth, 2) - 1, want_signal=True, excl=True)
            r = self.const_operand(draw) if draw(st.booleans()) else self.expr(
                draw, min(depth, 2) - 1, want_signal=True, excl=True)
            return Bin(draw(st.sampled_from(CMPS)), l, r)
        op = draw(st.sampled_from(["&&", "||"]))
        n = draw(st.integers(2, 3))
        seen = {}
        e = self.simple_comparison(draw, seen)
        for _ in range(n - 1):
            e = Bin(op, e, self.simple_comparison(draw, seen))
        return e

    def simple_comparison(self, draw, seen=None):
        """`seen` collects the explicit types used so far in one folded &&/|| chain: with the open finding
        F-three-same active, a third distinct source of one type is replaced by a constant."""
        def leaf():
            x = self.leaf(draw, want_signal=True, excl=True)
            if seen is not None and self.s.avoid_three_same and isinstance(x, Ref):
                t = self.s.type_of.get(x.name, "~" + x.name)
                if seen.get(t, 0) >= 2:
                    self.s.steered += 1
                    return SigLit(draw(st.sampled_from([y for y in self.p.types if seen.get(y, 0) < 2] or self.p.types)), Num(draw(st.integers(-9, 9))))
                seen[t] = seen.get(t, 0) + 1
            elif seen is not None and isinstance(x, SigLit) and isinstance(x.ty, str):
                seen[x.ty] = seen.get(x.ty, 0) + 1
            return x

        l = leaf()
        r = leaf() if draw(st.integers(0, 3)) == 0 else self.const_operand(draw)
        return Bin(draw(st.sampled_from(CMPS)), l, r)

    def expr(self, draw, depth, want_signal=False, excl=False):
        if depth <= 0:
            return self.leaf(draw, want_signal, excl)
        k = draw(st.integers(0, 19))
        if k <= 1:
            return self.leaf(draw, want_signal, excl)
        if k <= 8:
            op = draw(st.sampled_from(ARITH_SAFE))
            shape = draw(st.integers(0, 5))
            if shape <= 1:  # signal OP constant: single-source combinator
                return Bin(op, self.expr(draw, depth - 1, want_signal=True), self.const_operand(draw))
            if shape == 2:  # constant OP signal
                return Bin(op, self.const_operand(draw), self.expr(draw, depth - 1, want_signal=True))
            return Bin(op, self.expr(draw, depth - 1, want_signal=True, excl=True),
                       self.expr(draw, depth - 1, want_signal=True, excl=True))
        if k == 9 and self.allow_pow_shift:
            op = draw(st.sampled_from(["<<", ">>", "**"]))
            if draw(st.integers(0, 3)) == 0:  # constant on the left: K ** x, K << x
                r = Bin("AND", self.expr(draw, depth - 1, want_signal=True), Num(31 if op != "**" else 7))
                return Bin(op, Num(draw(st.integers(-3, 9))), r)
            if draw(st.booleans()):
                l = self.expr(draw, depth - 1, want_signal=True)
                r = Num(draw(st.integers(0, 31) if op != "**" else st.integers(0, 6)))
            else:
                l = self.expr(draw, depth - 1, want_signal=True, excl=True)
                r = Bin("AND", self.expr(draw, depth - 1, want_signal=True, excl=True), Num(31 if op != "**" else 7))
            return Bin(op, l, r)
        if k <= 11:
            return self.comparison(draw, depth)
        if k == 12 and self.allow_logic:
            op = draw(st.sampled_from(["&&", "||"]))
            if draw(st.booleans()):
                seen = {}
                e = self.simple_comparison(draw, seen)
                for _ in range(draw(st.integers(1, 2))):
                    e = Bin(op, e, self.simple_comparison(draw, seen))
                return e
            return Bin(op, self.expr(draw, depth - 1, want_signal=True, excl=True),
                       self.expr(draw, depth - 1, want_signal=True, excl=True))
        if k == 13:
            uop = draw(st.sampled_from(["-", "!", "-", "+"] if self.allow_logic else ["-", "+"]))
            return Un(uop, self.expr(draw, depth - 1, want_signal=True, excl=excl))
        if k <= 15 and self.allow_proj:
            return Proj(self.expr(draw, depth - 1, want_signal=False, excl=excl), self.type_lit(draw))
        if k <= 17 and self.allow_cond:
            c = self.condition(draw, depth - 1)
            if draw(st.integers(0, 2)) == 0:
                v = self.const_operand(draw)
            else:
                v = self.expr(draw, depth - 1, want_signal=True, excl=True)
            return Cond(c, v)
        if k == 18:
            return Paren(self.expr(draw, depth - 1, want_signal=want_signal, excl=excl))
        if self.s.signals:
            n = self.s.pick(draw, self.s.signals, excl)  # the same source on both operands of one combinator
            if n is not None:
                return Bin(draw(st.sampled_from(["+", "-", "*", "XOR", ">=", "!="])), Ref(n), Ref(n))
        return Bin(draw(st.sampled_from(["+", "-", "*"])), self.expr(draw, depth - 1, want_signal=True),
                   self.const_operand(draw))


def is_comparison(e) -> bool:
    while isinstance(e, Paren):
        e = e.e
    return isinstance(e, Bin) and e.op in CMPS


@st.composite
def scalar_program(draw, early_virtual=False, linear=False, max_stmts=8, max_depth=3, **profile):
    """Stateless program: inputs, int constants, then a DAG of Signal declarations."""
    sc = Scope()
    sc.steer = linear
    from . import known as _known

    sc.avoid_three_same = _known.active("three-same-signal-sources")
    pal = Palette(early_virtual)
    g = ExprGen(sc, pal, **profile)
    stmts = []
    n_in = draw(st.integers(2, 6) if linear else st.integers(1, 4))
    same_type = draw(st.integers(0, 3)) == 0  # force same-typed operands (two-colour separation)
    shared = draw(st.sampled_from(pal.types))
    untyped_ok = draw(st.integers(0, 2)) == 0
    for _ in range(n_in):
        name = sc.fresh(draw, "in")
        if untyped_ok and draw(st.integers(0, 3)) == 0:
            stmts.append(Decl("Signal", name, draw(num(small_int()))))
            sc.typed[name] = False
            sc.untyped_inputs = list(getattr(sc, "untyped_inputs", ())) + [name]
        else:
            ty = shared if same_type and draw(st.booleans()) else draw(st.sampled_from(pal.types))
            stmts.append(Decl("Signal", name, SigLit(ty, draw(num(small_int())))))
            sc.typed[name] = True
            sc.type_of[name] = ty
        sc.signals.append(name)
    for _ in range(draw(st.integers(0, 2))):
        name = sc.fresh(draw, "k")
        stmts.append(Decl("int", name, g.const_expr(draw, 1, excl=False)))
        sc.ints.append(name)
    n = draw(st.integers(1, max_stmts))
    for _ in range(n):
        name = sc.fresh(draw, "v")
        e = g.expr(draw, draw(st.integers(1, max_depth)), want_signal=True)
        stmts.append(Decl("Signal", name, e))
        sc.signals.append(name)
        sc.typed[name] = False  # conservative: .type only of declared inputs
        bare = e
        while isinstance(bare, Paren) or (isinstance(bare, Un) and bare.op == "+"):
            bare = bare.e
        if isinstance(bare, Ref) and sc.state.get(bare.name) == "shared":
            sc.state[name] = "shared"  # an alias is the same wire: it inherits the source's sharing
        if is_comparison(e):
            sc.cmp_names.append(name)
    return Program(tuple(stmts))


@st.composite
def valuations(draw, names, n):
    out = []
    for _ in range(n):
        out.append({nm: draw(int32()) for nm in names})
    return out


@st.composite
def print_opts(draw):
    return {"word_logic": draw(st.booleans()), "full_parens": draw(st.integers(0, 4)) == 0}


__all__ = [n for n in dir() if not n.startswith("_")]
assert AllOf and AnyOf and Assign and BLit and BSel and Place and PropRead


# ------------------------------------------------------------------------------------------
# Bundles (C02)
# ------------------------------------------------------------------------------------------

ALL_ARITH = ["+", "-", "*", "/", "%", "**", "<<", ">>", "AND", "OR", "XOR"]


@st.composite
def bundle_program(draw, early_virtual=True, steer=True, max_stmts=6):
    """Stateless programs over bundle literals, each-arithmetic, filters, gating, any/all, selection."""
    sc = Scope()
    sc.steer = steer
    pal = Palette(early_virtual)
    stmts = []
    types = list(draw(st.permutations(pal.types)))
    in_type: dict[str, str] = {}
    n_in = draw(st.integers(3, 8))
    for _ in range(n_in):
        name = sc.fresh(draw, "in")
        ty = types.pop()
        stmts.append(Decl("Signal", name, SigLit(ty, draw(num(small_int())))))
        sc.signals.append(name)
        sc.typed[name] = True
        in_type[name] = ty
    btypes: dict[str, set] = {}  # bundle name -> possible member types

    def scalar_operand(excl_other):
        """Returns (expr, is_signal)."""
        k = draw(st.integers(0, 3))
        if k == 0 and sc.signals:
            n = sc.pick(draw, sc.signals, True)
            if n is not None:
                return Ref(n), True
        return draw(num(int32() if k == 1 else small_int())), False

    def new_literal():
        elems, tys = [], set()
        for _ in range(draw(st.integers(0, 4))):
            k = draw(st.integers(0, 5))
            if k <= 2:
                cands = [n for n in sc.signals if in_type.get(n) and in_type[n] not in tys]
                n = sc.pick(draw, cands, True)
                if n is not None:
                    elems.append(Ref(n))
                    tys.add(in_type[n])
                    continue
            if k == 3 and sc.bundles:
                cands = [b for b in sc.bundles if not (btypes[b] & tys)]
                b = sc.pick(draw, cands, True)
                if b is not None:
                    elems.append(Ref(b))
                    tys |= btypes[b]
                    continue
            if k == 4:
                cands = [n for n in sc.signals if in_type.get(n) and in_type[n] not in tys]
                n = sc.pick(draw, cands, False)
                if n is not None:  # computed member: keeps the input's type
                    elems.append(Bin(draw(st.sampled_from(["+", "*", "-"])), Ref(n), draw(num(small_int()))))
                    tys.add(in_type[n])
                    continue
            free = [t for t in types if t not in tys]
            if free:
                t = draw(st.sampled_from(free))
                elems.append(SigLit(t, draw(num(small_int()))))
                tys.add(t)
        return BLit(tuple(elems)), tys

    def arith_rhs(op):
        if op in ("<<", ">>"):
            return Num(draw(st.integers(0, 31))), False
        if op == "**":
            return Num(draw(st.integers(0, 5))), False
        return scalar_operand(True)

    n = draw(st.integers(1, max_stmts))
    if len(sc.signals) >= 4 and draw(st.integers(0, 5)) == 0:
        # scenario: a merged bundle nested in another literal, then gated / filtered / reduced
        free = [x for x in sc.signals if x not in sc.state]
        a1, a2, a3, a4 = free[:4]
        for x in (a1, a2, a3, a4):
            sc.state[x] = "burned"
        inner_members = [Bin("*", Ref(a1), Num(draw(st.integers(2, 4)))) if draw(st.booleans()) else Ref(a1), Ref(a2)]
        stmts.append(Decl("Bundle", "nb_in", BLit(tuple(inner_members))))
        outer_extra = SigLit(types.pop(), draw(num(small_int()))) if draw(st.booleans()) else Ref(a3)
        stmts.append(Decl("Bundle", "nb_out", BLit((Ref("nb_in"), outer_extra))))
        use = draw(st.integers(0, 2))
        if use == 0:
            stmts.append(Decl("Bundle", "nb_g", Cond(Bin(draw(st.sampled_from(CMPS)), Ref(a4), draw(num(small_int()))), Ref("nb_out"))))
        elif use == 1:
            stmts.append(Decl("Bundle", "nb_g", Bin(draw(st.sampled_from(["*", "+"])), Ref("nb_out"), Ref(a4))))
        else:
            stmts.append(Decl("Signal", "nb_q", Bin(">", AnyOf(Ref("nb_out")), Ref(a4))))
        if draw(st.booleans()):
            stmts.append(Decl("Bundle", "nb_r", Bin("+", Ref("nb_g") if use != 2 else Ref("nb_out"), Num(1000)))) if use == 2 else None
    lit, tys = new_literal()
    b0 = sc.fresh(draw, "b")
    stmts.append(Decl("Bundle", b0, lit))
    sc.bundles.append(b0)
    btypes[b0] = tys
    for _ in range(n):
        k = draw(st.integers(0, 11))
        if k == 0:
            lit, tys = new_literal()
            name = sc.fresh(draw, "b")
            stmts.append(Decl("Bundle", name, lit))
            sc.bundles.append(name)
            btypes[name] = tys
            continue
        if k <= 3:  # each-arithmetic
            op = draw(st.sampled_from(ALL_ARITH))
            rhs, is_sig = arith_rhs(op)
            b = sc.pick(draw, sc.bundles, is_sig)
            if b is None:
                continue
            name = sc.fresh(draw, "b")
            stmts.append(Decl("Bundle", name, Bin(op, Ref(b), rhs)))
            sc.bundles.append(name)
            btypes[name] = set(btypes[b])
            continue
        if k <= 5:  # filter
            rhs, is_sig = scalar_operand(True)
            b = sc.pick(draw, sc.bundles, is_sig)
            if b is None:
                continue
            out = Ref(b) if draw(st.booleans()) else draw(num(small_int()))
            name = sc.fresh(draw, "b")
            cmp_ = draw(st.sampled_from(CMPS))
            stmts.append(Decl("Bundle", name, Cond(Bin(cmp_, Ref(b), rhs), out)))
            sc.bundles.append(name)
            btypes[name] = set(btypes[b])
            if not is_sig and draw(st.integers(0, 2)) == 0:
                # the same comparison with the other output mode (copy the member / emit a constant)
                name2 = sc.fresh(draw, "b")
                other = draw(num(small_int())) if isinstance(out, Ref) else Ref(b)
                stmts.append(Decl("Bundle", name2, Cond(Bin(cmp_, Ref(b), rhs), other)))
                sc.bundles.append(name2)
                btypes[name2] = set(btypes[b])
            continue
        if k == 6:  # gating
            s = sc.pick(draw, sc.signals, True)
            b = sc.pick(draw, sc.bundles, True)
            if s is None or b is None:
                continue
            name = sc.fresh(draw, "b")
            stmts.append(Decl("Bundle", name, Cond(Bin(draw(st.sampled_from(CMPS)), Ref(s), draw(num(small_int()))), Ref(b))))
            sc.bundles.append(name)
            btypes[name] = set(btypes[b])
            continue
        if k <= 8:  # any / all
            rhs, is_sig = scalar_operand(True)
            b = sc.pick(draw, sc.bundles, is_sig)
            if b is None:
                continue
            q = AnyOf(Ref(b)) if draw(st.booleans()) else AllOf(Ref(b))
            name = sc.fresh(draw, "q")
            stmts.append(Decl("Signal", name, Bin(draw(st.sampled_from(CMPS)), q, rhs)))
            continue
        if k <= 10:  # selection
            b = sc.pick(draw, [x for x in sc.bundles if btypes[x]], False)
            if b is None:
                continue
            t = draw(st.sampled_from(sorted(btypes[b])))
            name = sc.fresh(draw, "s")
            e = BSel(Ref(b), t)
            if draw(st.booleans()):
                e = Bin(draw(st.sampled_from(["+", "*", "-", ">"])), e, draw(num(small_int())))
            stmts.append(Decl("Signal", name, e))
            continue
        b = sc.pick(draw, sc.bundles, False)  # alias
        if b is not None:
            name = sc.fresh(draw, "b")
            stmts.append(Decl("Bundle", name, Ref(b)))
            sc.bundles.append(name)
            btypes[name] = set(btypes[b])
            if sc.steer:
                sc.state[name] = "shared"  # an alias is the same wire as its source
    return Program(tuple(stmts))


# ------------------------------------------------------------------------------------------
# Memory cells (C03, C04, C05)
# ------------------------------------------------------------------------------------------

from .lang import Latch, MemDecl, MemRead, Write  # noqa: E402


def _zero_preserving(draw, names, depth, thresholds):
    """Tree-shaped enable expression over `names` (each used at most once) in which every node
    evaluates to 0 when all inputs are 0 (so the all-zero circuit state is at rest)."""
    if not names:
        return None
    if depth <= 0 or len(names) == 1 or draw(st.integers(0, 2)) == 0:
        n = names.pop()
        k = draw(st.integers(0, 8))
        if k == 0:
            return Ref(n)
        if k == 1:
            c = draw(st.integers(0, 40))
            thresholds.setdefault(n, []).append(c)
            return Bin(">", Ref(n), Num(c))
        if k == 2:
            c = draw(st.integers(1, 40))
            thresholds.setdefault(n, []).append(c)
            return Bin(">=", Ref(n), Num(c))
        if k == 3:
            c = draw(st.integers(1, 40)) * draw(st.sampled_from([1, -1]))
            thresholds.setdefault(n, []).append(c)
            return Bin("==", Ref(n), Num(c))
        if k == 4:
            thresholds.setdefault(n, []).append(0)
            return Bin("!=", Ref(n), Num(0))
        if k == 5:
            c = draw(st.integers(-40, 0))
            thresholds.setdefault(n, []).append(c)
            return Bin("<", Ref(n), Num(c))
        if k == 6:
            return Bin("*", Ref(n), Num(draw(st.integers(-3, 3))))
        c = draw(st.integers(0, 40))
        thresholds.setdefault(n, []).append(c)
        if k == 7 or not names:  # value-carrying enable: (n > c) : K
            return Cond(Bin(">", Ref(n), Num(c)), Num(draw(st.sampled_from([1, 2, 5, 100]))))
        n2 = names.pop()  # (n > c) : n2 - enabled while n > c and n2 > 0
        return Cond(Bin(">", Ref(n), Num(c)), Ref(n2))
    op = draw(st.sampled_from(["&&", "||", "*", "+"]))
    l = _zero_preserving(draw, names, depth - 1, thresholds)
    r = _zero_preserving(draw, names, depth - 1, thresholds)
    if r is None:
        return l
    return Bin(op, l, r)


@st.composite
def gated_memory_program(draw, steer=True, early_virtual=True):
    """1-3 standard cells written with when=, data/enable over disjoint inputs, 1-3 readers each."""
    sc = Scope()
    sc.steer = steer
    pal = Palette(early_virtual)
    types = list(draw(st.permutations(pal.types)))
    stmts, thresholds, cells = [], {}, []
    n_cells = draw(st.integers(1, 3))
    g = ExprGen(sc, pal, allow_typeof=False)
    prev_enable = None
    for ci in range(n_cells):
        # data inputs
        d_names = []
        for _ in range(draw(st.integers(1, 2))):
            n = sc.fresh(draw, "d")
            stmts.append(Decl("Signal", n, SigLit(types.pop(), Num(0))))
            d_names.append(n)
        e_names = []
        for _ in range(draw(st.integers(1, 3))):
            n = sc.fresh(draw, "e")
            stmts.append(Decl("Signal", n, SigLit(types.pop(), Num(0))))
            e_names.append(n)
        m = f"m{ci + 1}"
        mty = types.pop()
        explicit = draw(st.integers(0, 3)) != 0
        stmts.append(MemDecl(m, mty if explicit else None))
        # data expression over d_names only
        sc.signals = list(d_names)
        sc.state = {}
        # data: the property is about the cell, C01 covers expressions -> keep v simple
        dk = draw(st.integers(0, 5))
        if dk <= 1 or len(d_names) == 1 and dk == 3:
            v = Ref(d_names[0])
        elif dk == 2:
            v = Bin(draw(st.sampled_from(["+", "-", "*", "/", "%", "XOR"])), Ref(d_names[0]), draw(num(small_int())))
        elif dk == 3:
            v = Bin(draw(st.sampled_from(["+", "-", "*"])), Ref(d_names[0]), Ref(d_names[1]))
        elif dk == 4:
            v = draw(num(int32()))  # constant data
        else:
            v = Bin(draw(st.sampled_from(CMPS)), Ref(d_names[0]), draw(num(small_int())))
        if not isinstance(v, Num) or draw(st.booleans()):
            v = Proj(v, mty)
        pool = list(e_names)
        c = _zero_preserving(draw, pool, 2, thresholds)
        if prev_enable is not None and not steer and draw(st.integers(0, 3)) == 0:
            # a second cell gated by the structurally identical enable expression (written out again): its inputs then
            # feed two trees, which is the F-leak shape - only generated when that finding is not steered around
            c = prev_enable
        prev_enable = c
        c_name = None
        if c is not None and draw(st.integers(0, 2)) == 0:  # the enable through a name, which later statements may reuse
            c_name = sc.fresh(draw, "g")
            stmts.append(Decl("Signal", c_name, c))
            c = Ref(c_name)
        stmts.append(Write(m, v, c))
        cells.append(m)
        if c_name and draw(st.booleans()):
            # a value derived from the enable's name after the write meets a read of the cell in one combinator
            x = sc.fresh(draw, "x")
            stmts.append(Decl("Signal", x, Bin("==", Ref(c_name), Num(0)) if draw(st.booleans()) else Bin("+", Ref(c_name), Num(1))))
            stmts.append(Decl("Signal", sc.fresh(draw, "r"), Bin(draw(st.sampled_from(["*", "+"])), MemRead(m), Ref(x))))
        for _ in range(draw(st.integers(1, 3))):
            r = sc.fresh(draw, "r")
            k = draw(st.integers(0, 3))
            if k == 0:
                e = MemRead(m)
            elif k == 1:
                e = Bin(draw(st.sampled_from(["+", "*", "-", "XOR"])), MemRead(m), draw(num(small_int())))
            elif k == 2:
                e = Bin(draw(st.sampled_from(CMPS)), MemRead(m), draw(num(small_int())))
            else:
                e = Proj(MemRead(m), draw(st.sampled_from(pal.types)))
            stmts.append(Decl("Signal", r, e))
    return Program(tuple(stmts)), thresholds


@st.composite
def history(draw, names, thresholds, n_steps, enable_prefix="e"):
    steps = []
    ens = sorted(n for n in names if n.startswith(enable_prefix))
    dats = sorted(n for n in names if n.startswith("d"))
    if ens and dats and draw(st.booleans()):
        # scripted prefix: data, enable on, enable off (hold), data changes while held, enable on again
        def on(n):
            ths = thresholds.get(n) or [0]
            return draw(st.sampled_from([t + 1 for t in ths] + [t for t in ths] + [1, 41]))

        d, e = draw(st.sampled_from(dats)), draw(st.sampled_from(ens))
        steps += [(d, draw(int32())), (e, on(e)), (e, 0), (d, draw(int32())), (d, draw(int32())), (e, on(e))]
    for _ in range(n_steps):
        n = draw(st.sampled_from(sorted(names)))
        ths = thresholds.get(n)
        if ths and draw(st.integers(0, 3)) != 0:
            t = draw(st.sampled_from(ths))
            v = t + draw(st.sampled_from([-1, 0, 1, 1, 2]))
        elif n.startswith(enable_prefix):
            v = draw(st.sampled_from([0, 0, 1, 1, 2, 5, -1, 40, 41]))
        else:
            v = draw(int32())
        steps.append((n, v))
    return steps


@st.composite
def feedback_program(draw, early_virtual=True):
    """m.write(f(m.read())) with f a chain of 1..6 arithmetic steps over the cell, constants and
    held inputs; as named intermediates or one nested expression; 1-3 readers."""
    pal = Palette(early_virtual)
    types = list(draw(st.permutations(pal.types)))
    stmts = []
    mty = types.pop()
    explicit = True
    n_held = draw(st.integers(0, 2))
    held = []
    for i in range(n_held):
        n = f"h{i + 1}"
        stmts.append(Decl("Signal", n, SigLit(types.pop(), draw(num(st.integers(1, 9))))))
        held.append(n)
    stmts.append(MemDecl("m", mty if explicit else None))
    # k = 1 folds the whole cell into one self-wired combinator: its own code path, weighted up
    k = draw(st.sampled_from([1, 1, 1, 2, 2, 3, 4, 5, 6]))
    named = draw(st.booleans())
    # source order: the cell may be read once into a name that both the chain and the readers
    # consume, and the readers may be declared before the write
    read_first = draw(st.integers(0, 2)) == 0
    readers_first = draw(st.booleans())
    base = Ref("t0") if read_first else MemRead("m")
    reader_stmts = [Decl("Signal", "r0", MemRead("m"))]
    for i in range(draw(st.integers(0, 2))):
        rb = base if draw(st.booleans()) else MemRead("m")
        op = draw(st.sampled_from(["+", "*", "XOR", ">", "%"]))
        rhs = Num(draw(st.sampled_from([3, 4, 10]))) if op == "%" else draw(num(small_int()))
        e = Bin(op, rb, rhs)
        if draw(st.integers(0, 3)) == 0 and types:
            e = Proj(e, types.pop())
        reader_stmts.append(Decl("Signal", f"r{i + 1}", e))
    if read_first:
        stmts.append(Decl("Signal", "t0", MemRead("m")))
    if readers_first:
        stmts.extend(reader_stmts)
    cur = base
    if draw(st.integers(0, 4)) == 0:
        # the cell enters f twice: both uses one combinator deep, or - unless the open finding
        # F-feedback-path-skew is steered around - at different depths (x + x*2)
        def leg():
            o = draw(st.sampled_from(["*", "+", "XOR"]))
            return Bin(o, base, Num(draw(st.integers(2, 5) if o == "*" else st.integers(1, 9))))

        left, right = leg(), leg()
        if not _known.active("feedback-path-skew") and draw(st.booleans()):
            left = base
        cur = Bin(draw(st.sampled_from(["+", "-", "XOR"])), left, right)
        if named:
            stmts.append(Decl("Signal", "sd", cur))
            cur = Ref("sd")
    free_held = list(held)
    for i in range(k):
        op = draw(st.sampled_from(["+", "+", "*", "%", "-", "XOR", "AND", "OR", "/", "<<", ">>"]))
        if free_held and draw(st.integers(0, 3)) == 0 and op in ("+", "-", "*", "XOR"):
            rhs = Ref(free_held.pop())
        elif op == "%":
            rhs = Num(draw(st.sampled_from([7, 10, 17, 100, 256, 1000])))
        elif op in ("<<", ">>"):
            rhs = Num(draw(st.integers(1, 3)))
        elif op == "/":
            rhs = Num(draw(st.sampled_from([2, 3, -2])))
        elif op == "*":
            rhs = Num(draw(st.sampled_from([2, 3, 5, -1, 7])))
        else:
            rhs = Num(draw(st.integers(1, 13)))
        nxt = Bin(op, cur, rhs)
        if named and i < k - 1:
            n = f"s{i + 1}"
            stmts.append(Decl("Signal", n, nxt))
            cur = Ref(n)
        else:
            cur = nxt
    if draw(st.integers(0, 4)) == 0:  # final step a decider: the two-gate cell stays
        stmts.append(Decl("Signal", "sx", cur))
        cur = Cond(Bin("<", Ref("sx"), Num(draw(st.integers(50, 5000)))), Ref("sx"))
    stmts.append(Write("m", cur, None))
    if not readers_first:
        stmts.extend(reader_stmts)
    return Program(tuple(stmts))


@st.composite
def latch_program(draw, early_virtual=True):
    pal = Palette(early_virtual)
    types = list(draw(st.permutations(pal.types)))
    stmts, thresholds = [], {}
    mty = types.pop()
    shape = draw(st.sampled_from(["signals", "shared", "different", "mixed"]))
    set_first = draw(st.booleans())

    def cmp_on(name):
        c = draw(st.integers(-20, 100))
        thresholds.setdefault(name, []).append(c)
        return Bin(draw(st.sampled_from(CMPS)), Ref(name), Num(c))

    boolean_inputs = []
    if shape == "signals":
        stmts.append(Decl("Signal", "s", SigLit(types.pop(), Num(0))))
        stmts.append(Decl("Signal", "t", SigLit(types.pop(), Num(0))))
        set_e, reset_e = Ref("s"), Ref("t")
        boolean_inputs = ["s", "t"]
    elif shape == "shared":
        xty = mty if draw(st.integers(0, 3)) == 0 else types.pop()
        stmts.append(Decl("Signal", "x", SigLit(xty, Num(0))))
        set_e, reset_e = cmp_on("x"), cmp_on("x")
    elif shape == "different":
        stmts.append(Decl("Signal", "x", SigLit(types.pop(), Num(0))))
        stmts.append(Decl("Signal", "y", SigLit(types.pop(), Num(0))))
        set_e, reset_e = cmp_on("x"), cmp_on("y")
    else:
        stmts.append(Decl("Signal", "s", SigLit(types.pop(), Num(0))))
        stmts.append(Decl("Signal", "y", SigLit(types.pop(), Num(0))))
        set_e, reset_e = Ref("s"), cmp_on("y")
        boolean_inputs = ["s"]
        if draw(st.booleans()):
            set_e, reset_e = reset_e, set_e
    named = draw(st.booleans())
    if named and not isinstance(set_e, Ref):
        stmts.append(Decl("Signal", "set_c", set_e))
        set_e = Ref("set_c")
    if named and not isinstance(reset_e, Ref):
        stmts.append(Decl("Signal", "reset_c", reset_e))
        reset_e = Ref("reset_c")
    vk = draw(st.integers(0, 4))
    if vk <= 1:
        v = Num(1)
    elif vk == 2:
        v = Num(draw(st.sampled_from([2, 5, 100, -3, 1000])))
    else:
        same = draw(st.booleans())
        stmts.append(Decl("Signal", "val", SigLit(mty if same else types.pop(), draw(num(st.integers(2, 50))))))
        v = Ref("val") if same else Proj(Ref("val"), mty)
    stmts.append(MemDecl("m", mty))
    stmts.append(Latch("m", v, set_e, reset_e, set_first))
    stmts.append(Decl("Signal", "r0", MemRead("m")))
    if draw(st.booleans()):
        stmts.append(Decl("Signal", "r1", Bin(">", MemRead("m"), Num(0))))
    return Program(tuple(stmts)), thresholds, boolean_inputs


# ------------------------------------------------------------------------------------------
# Entities (C06, C08, C09, C18)
# ------------------------------------------------------------------------------------------

CONTROLLABLE = ["small-lamp", "inserter", "transport-belt", "train-stop", "assembling-machine-1", "fast-inserter"]
NO_CONDITION_PROTOS = ["pump", "power-switch"]  # open finding F-nocond
CONTAINERS = [("steel-chest", ITEMS), ("iron-chest", ITEMS), ("storage-tank", FLUIDS)]


def grid_positions(draw, n, spread=6, neg=True):
    """n distinct tile positions on a coarse grid (entities up to 4x4 never overlap)."""
    cells = draw(st.lists(st.tuples(st.integers(-3 if neg else 0, 6), st.integers(-3 if neg else 0, 4)),
                          min_size=n, max_size=n, unique=True))
    return [(cx * spread, cy * spread) for cx, cy in cells]


@st.composite
def scalar_with_consumers(draw, early_virtual=True, linear=True):
    """A scalar program whose named results also drive lamps: the exported values must not care
    whether an entity consumes (and possibly inlines) one of the comparisons on the way."""
    prog = draw(scalar_program(early_virtual=early_virtual, linear=linear, max_stmts=5))
    stmts = list(prog.stmts)
    from .lang import is_input_decl as is_input

    inputs = [s.name for s in stmts if is_input(s)]
    lamps = 0
    # an explicit inlinable comparison with an entity consumer and a scalar consumer, in either order
    if inputs and draw(st.integers(0, 2)) != 0:
        src = draw(st.sampled_from(inputs))
        c = Decl("Signal", "cq", Bin(draw(st.sampled_from(CMPS)), Ref(src), draw(num(small_int()))))
        lamp = [Decl("Entity", "lq", Place("small-lamp", Num(40), Num(40))), Assign("lq", "enable", Ref("cq"))]
        w = Decl("Signal", "wq", Bin(draw(st.sampled_from(["+", "*", "-"])), Ref("cq"), Num(draw(st.integers(1, 9)))))
        stmts += [c] + (lamp + [w] if draw(st.booleans()) else [w] + lamp)
        lamps += 1
    # lamps on arbitrary named results, placed anywhere after the declaration
    named = [(i, s.name) for i, s in enumerate(stmts) if isinstance(s, Decl) and s.kind == "Signal" and not is_input(s) and s.name != "cq"]
    for j in range(draw(st.integers(0, 2))):
        if not named:
            break
        i, name = draw(st.sampled_from(named))
        at = draw(st.integers(i + 1, len(stmts)))
        stmts[at:at] = [Decl("Entity", f"lr{j}", Place("small-lamp", Num(44 + 3 * j), Num(40))), Assign(f"lr{j}", "enable", Ref(name))]
        named = [(k if k < at else k + 2, n_) for k, n_ in named]
        lamps += 1
    return Program(tuple(stmts))


@st.composite
def same_name_rows_program(draw, early_virtual=True):
    """Folded multi-row conditions whose rows compare values carried on ONE signal name (so the
    router must bring them in on different colours and every row needs its own network selection),
    next to rows over other names; result as 0/1, as a constant or as a copied value."""
    pal = Palette(early_virtual)
    types = list(draw(st.permutations(pal.types)))
    shared = types.pop()
    stmts = []
    a, b = "in1", "in2"
    stmts.append(Decl("Signal", a, SigLit(shared, draw(num(small_int())))))
    stmts.append(Decl("Signal", b, SigLit(shared, draw(num(small_int())))))
    others = []
    for i in range(draw(st.integers(1, 2))):
        n = f"in{i + 3}"
        stmts.append(Decl("Signal", n, SigLit(types.pop(), draw(num(small_int())))))
        others.append(n)
    derived = draw(st.booleans())
    if derived:  # computed operands: two arithmetic combinators writing the same name
        stmts.append(Decl("Signal", "p1", Bin(draw(st.sampled_from(["*", "+"])), Ref(a), Num(draw(st.integers(1, 4))))))
        stmts.append(Decl("Signal", "p2", Bin(draw(st.sampled_from(["*", "+"])), Ref(b), Num(draw(st.integers(1, 4))))))
        a, b = "p1", "p2"
    first = Bin(draw(st.sampled_from(CMPS)), Ref(a), Ref(b)) if draw(st.booleans()) else Bin(draw(st.sampled_from(CMPS)), Ref(b), Ref(a))
    rows = [first]
    for n in others:
        rows.append(Bin(draw(st.sampled_from(CMPS)), Ref(n), draw(num(small_int()))))
    rows = list(draw(st.permutations(rows)))
    op = draw(st.sampled_from(["&&", "||"]))
    cond = rows[0]
    for r in rows[1:]:
        cond = Bin(op, cond, r)
    k = draw(st.integers(0, 2))
    if k == 0:
        e = cond
    elif k == 1:
        e = Cond(cond, Num(draw(st.sampled_from([1, 7, -3]))))
    else:
        e = Cond(cond, Ref(draw(st.sampled_from(others))))
    stmts.append(Decl("Signal", "q", e))
    return Program(tuple(stmts))


@st.composite
def balanced_program(draw):
    """Sources that each enter two merges, one of which feeds the other ("balanced loader"):
    total = {s1..sn}; f = total op k; d_i = {f, s_i}; one consumer per d_i. Sources are chest outputs;
    0-8 unrelated statements come first so that internal numbering varies in digits."""
    n = draw(st.integers(2, 4))
    stmts = []
    for i in range(draw(st.one_of(st.integers(0, 3), st.integers(0, 12), st.integers(36, 60)))):
        stmts.append(Decl("Signal", f"pad{i}", Num(i + 1)))
    # sources are container outputs: their member types are unknown at compile time, so the same
    # source may legally reach a bundle twice (typed constants would be refused as duplicates)
    chests = True
    srcs = []
    proto = draw(st.sampled_from(["steel-chest", "iron-chest", "wooden-chest"]))
    for i in range(n):
        stmts.append(Decl("Entity", f"chest{i + 1}", Place(proto, Num(i), Num(0))))
        srcs.append(PropRead(f"chest{i + 1}", "output"))
    order = draw(st.permutations(range(n)))
    stmts.append(Decl("Bundle", "total", BLit(tuple(srcs[i] for i in order))))
    stmts.append(Decl("Bundle", "f", Bin(draw(st.sampled_from(["/", "*"])), Ref("total"), Num(-n))))
    for i in draw(st.permutations(range(n))):
        members = (Ref("f"), srcs[i]) if draw(st.booleans()) else (srcs[i], Ref("f"))
        stmts.append(Decl("Bundle", f"d{i + 1}", BLit(members)))
    for i in range(n):
        if chests or draw(st.booleans()):
            stmts.append(Decl("Entity", f"load{i + 1}", Place("fast-inserter", Num(i), Num(-1))))
            stmts.append(Assign(f"load{i + 1}", "enable", Bin("<", AllOf(Ref(f"d{i + 1}")), Num(0))))
        else:
            stmts.append(Decl("Bundle", f"o{i + 1}", Bin("+", Ref(f"d{i + 1}"), Num(1))))
    return Program(tuple(stmts))


@st.composite
def entity_program(draw, steer=True, early_virtual=True, avoid_nocond=True, max_entities=5, spread=6):
    """Circuit-controlled entities with inlinable / non-inlinable enables and .output sources.
    Returns (program, contents_domain) where contents_domain = {entity_var: [signal names]}."""
    sc = Scope()
    sc.steer = steer
    pal = Palette(early_virtual)
    types = list(draw(st.permutations(pal.types)))
    stmts = []
    in_type = {}
    for _ in range(draw(st.integers(1, 4))):
        name = sc.fresh(draw, "in")
        ty = types.pop()
        stmts.append(Decl("Signal", name, SigLit(ty, draw(num(small_int())))))
        sc.signals.append(name)
        sc.typed[name] = True
        in_type[name] = ty
    n_ent = draw(st.integers(1, max_entities))
    n_src = draw(st.integers(0, 2))
    pos = grid_positions(draw, n_ent + n_src, spread)
    contents = {}
    outs = []  # bundle names bound to .output
    for i in range(n_src):
        proto, sigs = draw(st.sampled_from(CONTAINERS))
        var = f"src{i + 1}"
        x, y = pos.pop()
        stmts.append(Decl("Entity", var, Place(proto, Num(x), Num(y))))
        contents[var] = list(sigs)
        b = f"out{i + 1}"
        stmts.append(Decl("Bundle", b, PropRead(var, "output")))
        outs.append((b, sigs))
        sc.bundles.append(b)
    protos = CONTROLLABLE + ([] if avoid_nocond else NO_CONDITION_PROTOS)
    named_cmps, trailing = [], []
    for i in range(n_ent):
        proto = draw(st.sampled_from(protos))
        var = f"ent{i + 1}"
        x, y = pos.pop()
        stmts.append(Decl("Entity", var, Place(proto, Num(x), Num(y))))
        k = draw(st.integers(0, 11))
        e = None
        if k >= 10 and named_cmps:  # a named comparison that already drives another entity
            e = Ref(draw(st.sampled_from(named_cmps)))
        elif k >= 10:
            k = 8
        if e is not None:
            pass
        elif k <= 2:  # inlinable x CMP c
            n = sc.pick(draw, sc.signals, False)
            if n:
                e = Bin(draw(st.sampled_from(CMPS)), Ref(n), draw(num(small_int())))
        elif k == 3 and outs:  # any/all of an entity output
            b, sigs = draw(st.sampled_from(outs))
            bn = sc.pick(draw, [b], False)
            if bn:
                q = AnyOf(Ref(bn)) if draw(st.booleans()) else AllOf(Ref(bn))
                e = Bin(draw(st.sampled_from(CMPS)), q, Num(draw(st.integers(0, 200))))
        elif k == 4 and outs:  # selection from an entity output
            b, sigs = draw(st.sampled_from(outs))
            bn = sc.pick(draw, [b], False)
            if bn:
                e = Bin(draw(st.sampled_from(CMPS)), BSel(Ref(bn), draw(st.sampled_from(sigs))), Num(draw(st.integers(0, 200))))
        elif k == 5:  # plain signal
            n = sc.pick(draw, sc.signals, False)
            if n:
                e = Ref(n)
        elif k == 6:  # arithmetic result
            n = sc.pick(draw, sc.signals, False)
            if n:
                e = Bin(draw(st.sampled_from(["+", "-", "*", "%"])), Ref(n), draw(num(small_int())))
        elif k == 7:  # non-inlinable comparison
            a = sc.pick(draw, sc.signals, True)
            b2 = sc.pick(draw, sc.signals, True)
            if a and b2:
                e = Bin(draw(st.sampled_from(CMPS)), Bin(draw(st.sampled_from(["+", "-", "*"])), Ref(a), Ref(b2)), draw(num(small_int())))
            elif a:
                e = Bin(draw(st.sampled_from(CMPS)), Bin("*", Ref(a), Num(2)), draw(num(small_int())))
        elif k == 8:  # named comparison used once
            n = sc.pick(draw, sc.signals, False)
            if n:
                c = sc.fresh(draw, "c")
                stmts.append(Decl("Signal", c, Bin(draw(st.sampled_from(CMPS)), Ref(n), draw(num(small_int())))))
                e = Ref(c)
                named_cmps.append(c)
                if draw(st.integers(0, 3)) == 0:  # ... and also feeds a scalar result, declared before or after the entity uses it
                    w = Decl("Signal", sc.fresh(draw, "w"), Bin(draw(st.sampled_from(["+", "*", "-"])), Ref(c), Num(draw(st.integers(1, 9)))))
                    if draw(st.booleans()):
                        stmts.append(w)
                    else:
                        trailing.append(w)
        elif k == 9:  # conditional value as enable: (x CMP c) : y  /  : K, written directly or through a name
            n = sc.pick(draw, sc.signals, True)
            m2 = sc.pick(draw, sc.signals, True)
            if n:
                val = Ref(m2) if m2 and draw(st.booleans()) else Num(draw(st.sampled_from([-1, 0, 1, 5])))
                e = Cond(Bin(draw(st.sampled_from(CMPS)), Ref(n), draw(num(small_int()))), val)
                if draw(st.booleans()):
                    c = sc.fresh(draw, "g")
                    stmts.append(Decl("Signal", c, e))
                    e = Ref(c)
        if e is None:
            e = Num(draw(st.sampled_from([0, 1])))
        stmts.append(Assign(var, "enable", e))
    stmts.extend(trailing)
    return Program(tuple(stmts)), contents


@st.composite
def contents_valuations(draw, domain, n):
    out = []
    for _ in range(n):
        c = {}
        for var, sigs in domain.items():
            d = {}
            for s in draw(st.lists(st.sampled_from(sigs), max_size=3, unique=True)):
                d[s] = draw(st.sampled_from([1, 5, 10, 11, 50, 100, 101, 199, 200, 201, 1000, 25000]))
            c[var] = d
        out.append(c)
    return out


# ------------------------------------------------------------------------------------------
# CSE / folding bait (C10)
# ------------------------------------------------------------------------------------------


@st.composite
def cse_program(draw, early_virtual=True, leak_free=False):
    """Repeated sub-expressions that differ only in output type or output mode, anonymous-constant
    sub-expressions, high fan-out of one source into single-source consumers."""
    pal = Palette(early_virtual)
    types = list(draw(st.permutations(pal.types)))
    stmts = []
    ins = []
    for i in range(draw(st.integers(1, 3))):
        n = f"in{i + 1}"
        stmts.append(Decl("Signal", n, SigLit(types.pop(), draw(num(small_int())))))
        ins.append(n)
    vi = 0
    for _ in range(draw(st.integers(1, 3))):
        a = draw(st.sampled_from(ins))
        forced = draw(st.integers(0, 2)) == 0  # a OP k next to k OP a
        if forced and draw(st.booleans()):
            op = draw(st.sampled_from(["-", "/", "%", "<<", "**", ">>", "**"]))  # operators that do not commute
        else:
            op = draw(st.sampled_from(["+", "-", "*", "/", "%", "AND", "XOR", "<<", "**", ">>", "OR"]))
        k = Num(draw(st.integers(1, 9) if op != "**" else st.integers(2, 3)))
        cmp_ = draw(st.sampled_from(CMPS))
        c = Num(draw(st.integers(-5, 20)))
        base = Bin(op, Ref(a), k)
        cond = Bin(cmp_, Ref(a), c)
        variants = [
            base, Proj(base, types[0]), Proj(base, types[1]), base,
            cond, Cond(cond, Num(1)), Cond(cond, Ref(a)), Cond(cond, Num(draw(st.integers(2, 9)))),
            Proj(cond, types[2]), Un("-", Ref(a)), Un("!", Ref(a)), Bin(cmp_, base, c),
            # the same operator with swapped operands (only + * AND OR XOR commute)
            Bin(op, k, Ref(a)), Bin(op, k, Ref(a)),
            # same condition, copy mode, different gated values of one type
            Cond(cond, Paren(base)), Cond(cond, Paren(Bin(draw(st.sampled_from(["+", "*", "-"])), Ref(a), Num(draw(st.integers(2, 9)))))),
            Cond(cond, Paren(Bin("+", base, Num(1)))),
            Bin("+", Bin(op, Num(draw(st.integers(1, 5))), Num(draw(st.integers(1, 5)))), Ref(a)),
            # the repeated / swapped sub-expression as an anonymous operand (CSE treats named and unnamed nodes differently)
            Bin(draw(st.sampled_from(["+", "-", "XOR"])), Bin(op, k, Ref(a)), Num(draw(st.integers(1, 9)))),
            Bin(draw(st.sampled_from(["+", "-", "XOR"])), base, Num(draw(st.integers(1, 9)))),
        ]
        if leak_free:
            # absolute oracles (C01) stay clear of F-leak: no combinator that reads the input next to a value derived from it
            variants = [v for v in variants if not (isinstance(v, Cond) and isinstance(v.v, Paren))]
        picks = draw(st.lists(st.integers(0, len(variants) - 1), min_size=2, max_size=6))
        if forced:
            swapped = variants.index(Bin(op, k, Ref(a)))
            picks = [draw(st.sampled_from([0, len(variants) - 1])), draw(st.sampled_from([swapped, len(variants) - 2]))] + picks[:3]
        for p in picks:
            vi += 1
            stmts.append(Decl("Signal", f"v{vi}", variants[p]))
    # a few consumers (single-source) of earlier results
    names = [s.name for s in stmts if s.name.startswith("v")]
    for _ in range(draw(st.integers(0, 3))):
        vi += 1
        src = draw(st.sampled_from(names))
        stmts.append(Decl("Signal", f"v{vi}", Bin(draw(st.sampled_from(["+", "*", ">"])), Ref(src), Num(draw(st.integers(1, 7))))))
    return Program(tuple(stmts))


# ------------------------------------------------------------------------------------------
# Loops (C16) and functions (C15): one abstract description, two printers
# ------------------------------------------------------------------------------------------

from .lang import Call, For, Func, ListIter, Range, Return, declared_names, iteration_values, subst  # noqa: E402


def _loop_body(draw, it_names, inputs, pal, y_row, uid, allow_mem=False):
    """Statements using the iterators; returns list of stmts (local names end in uid)."""
    i = it_names[-1]
    stmts = []

    def idx_expr():
        k = draw(st.integers(0, 4))
        base = Ref(draw(st.sampled_from(it_names)))
        if k == 0:
            return base
        if k == 1:
            return Bin("*", base, Num(draw(st.integers(2, 3))))
        if k == 2:
            return Bin("+", base, Num(draw(st.integers(0, 3))))
        if k == 3 and len(it_names) > 1:
            return Bin("+", Bin("*", Ref(it_names[0]), Num(7)), Ref(it_names[-1]))
        return Bin("-", base, Num(draw(st.integers(0, 2))))

    n = draw(st.integers(1, 3))
    for j in range(n):
        k = draw(st.integers(0, 5))
        if k <= 2:  # an entity per iteration, enable depends on the iterator
            ev = f"e{uid}_{j}"
            # x coordinate injective in the iterators: (outer * 40 + inner) * 2 + j
            x = Ref(it_names[-1]) if len(it_names) == 1 else Bin("+", Bin("*", Ref(it_names[0]), Num(40)), Ref(it_names[-1]))
            x = Bin("+", Bin("*", x, Num(3)), Num(j))
            stmts.append(Decl("Entity", ev, Place("small-lamp", x, Num(y_row))))
            inp = draw(st.sampled_from(inputs))
            ek = draw(st.integers(0, 3))
            if ek == 0:
                e = Bin(draw(st.sampled_from(CMPS)), Ref(inp), idx_expr())
            elif ek == 1:
                e = Bin(draw(st.sampled_from(CMPS)), Bin("+", Ref(inp), idx_expr()), Num(draw(st.integers(0, 9))))
            elif ek == 2:
                e = Bin(">", Bin("*", Ref(inp), idx_expr()), Num(draw(st.integers(0, 9))))
            else:
                e = Bin("==", Bin("%", Ref(inp), Num(draw(st.integers(2, 5)))), Bin("%", idx_expr(), Num(2)))
            stmts.append(Assign(ev, "enable", e))
        elif k == 3:  # a local signal using the iterator as a typed-literal value
            sv = f"t{uid}_{j}"
            stmts.append(Decl("Signal", sv, Bin("+", SigLit(draw(st.sampled_from(pal.types)), idx_expr()), Num(draw(st.integers(0, 5))))))
        elif k == 4:
            sv = f"t{uid}_{j}"
            stmts.append(Decl("Signal", sv, Bin(draw(st.sampled_from(["+", "*", "-"])), Ref(draw(st.sampled_from(inputs))), idx_expr())))
        else:
            sv = f"k{uid}_{j}"
            stmts.append(Decl("int", sv, Bin("+", idx_expr(), Num(draw(st.integers(0, 4))))))
            ev = f"e{uid}_{j}"
            x = Ref(it_names[-1]) if len(it_names) == 1 else Bin("+", Bin("*", Ref(it_names[0]), Num(40)), Ref(it_names[-1]))
            x = Bin("+", Bin("*", x, Num(3)), Num(j))
            stmts.append(Decl("Entity", ev, Place("small-lamp", x, Num(y_row))))
            stmts.append(Assign(ev, "enable", Bin(">", Ref(draw(st.sampled_from(inputs))), Ref(sv))))
    return stmts


def unroll(stmts, env_ints):
    """Reference unrolling: copies of the body with the iterator replaced by each value in order,
    body-declared names renamed apart per iteration."""
    out = []
    for s in stmts:
        if isinstance(s, For):
            class _E(dict):
                pass
            vals = iteration_values(s.it, {k: lang_IntV(v) for k, v in env_ints.items()})
            for n, v in enumerate(vals):
                local = declared_names(s.body)
                ren = {nm: f"{nm}_u{n}" if v >= 0 else f"{nm}_u{n}" for nm in local}
                body = subst(tuple(s.body), {s.var: Num(v)}, ren)
                inner_env = dict(env_ints)
                inner_env[s.var] = v
                # nested loops inside the body: rename their bodies' locals too
                out += unroll(_suffix_nested(body, f"_u{n}"), inner_env)
        else:
            out.append(s)
    return out


def _suffix_nested(stmts, suffix):
    res = []
    for s in stmts:
        if isinstance(s, For):
            local = declared_names(s.body)
            ren = {nm: nm + suffix for nm in local}
            res.append(For(s.var, s.it, _suffix_nested(subst(tuple(s.body), {}, ren), suffix)))
        else:
            res.append(s)
    return tuple(res)


from .lang import IntV as lang_IntV  # noqa: E402


@st.composite
def loop_case(draw, tier="quick", avoid_shadow=False):
    """(program with loops, its manual unrolling, info)."""
    pal = Palette(True)
    types = list(draw(st.permutations(pal.types)))
    stmts = []
    inputs = []
    for i in range(draw(st.integers(1, 2))):
        n = f"in{i + 1}"
        stmts.append(Decl("Signal", n, SigLit(types.pop(), draw(num(small_int())))))
        inputs.append(n)
    ints = {}
    for i in range(draw(st.integers(0, 2))):
        n = f"n{i + 1}"
        v = draw(st.integers(-6, 6))
        stmts.append(Decl("int", n, Num(v)))
        ints[n] = v
    n_loops = draw(st.integers(1, 2))
    uid = 0
    info = {"triples": [], "nested": False, "list": False, "var_bounds": False, "empty": False}
    for li in range(n_loops):
        uid += 1

        def bound(v):
            cands = [k for k, x in ints.items() if x == v]
            if cands and draw(st.integers(0, 2)) == 0:
                info["var_bounds"] = True
                return Ref(cands[0])
            return Num(v)

        def make_iter():
            if draw(st.integers(0, 4)) == 0:
                vals = draw(st.lists(st.integers(-6, 9), max_size=4, unique=True))
                info["list"] = True
                if not vals:
                    info["empty"] = True
                return ListIter(tuple(Num(v) for v in vals)), vals
            a, b = draw(st.integers(-6, 6)), draw(st.integers(-6, 6))
            s = draw(st.sampled_from([None, 1, 2, 3, -1, -2, -3, 4, -5]))
            if draw(st.integers(0, 9)) < 7:
                # mostly non-empty: pick the number of iterations, then a stop that the step need not divide
                n_it = draw(st.integers(1, 5))
                step = s if s is not None else 1
                b = a + n_it * step - draw(st.integers(0, abs(step) - 1)) * (1 if step > 0 else -1)
            if s is None and a > b:
                s = -1  # the documentation does not say what a descending range without a step does
            it = Range(bound(a), bound(b), None if s is None else bound(s))
            vals = iteration_values(Range(Num(a), Num(b), None if s is None else Num(s)), {})
            info["triples"].append((a, b, s))
            if not vals:
                info["empty"] = True
            return it, vals

        it, vals = make_iter()
        if len(vals) > 6:
            it, vals = Range(Num(0), Num(3), None), [0, 1, 2]
        var = f"i{uid}"
        if draw(st.integers(0, 3)) == 0 and len(vals) <= 3:  # nested
            it2, vals2 = make_iter()
            if len(vals2) > 4:
                it2, vals2 = Range(Num(0), Num(2), None), [0, 1]
            var2 = f"j{uid}"
            inner = _loop_body(draw, [var, var2], inputs, pal, 10 * li, f"{uid}n")
            body = _loop_body(draw, [var], inputs, pal, 10 * li + 4, f"{uid}o") if draw(st.booleans()) else []
            stmts.append(For(var, it, tuple(body + [For(var2, it2, tuple(inner))])))
            info["nested"] = True
        else:
            stmts.append(For(var, it, tuple(_loop_body(draw, [var], inputs, pal, 10 * li, str(uid)))))
    extraA, extraB = [], []
    shadow = draw(st.integers(0, 3)) == 0 and not avoid_shadow
    if shadow:
        # body-local names and iterators that shadow outer names, and a use of the outer name AFTER the loop
        from .lang import ExprStmt  # noqa: F401

        info["shadow"] = True
        kind = draw(st.sampled_from(["local", "iterator"]))
        outer_v = draw(st.integers(20, 29))
        vals = draw(st.lists(st.integers(1, 9), min_size=1, max_size=3, unique=True))
        pre = [Decl("int", "sh", Num(outer_v))]
        if kind == "local":
            body = [Decl("int", "sh", Bin("+", Ref("iq"), Num(1))),
                    Decl("Entity", "shl", Place("small-lamp", Bin("+", Bin("*", Ref("iq"), Num(2)), Num(60)), Num(-50))),
                    Assign("shl", "enable", Bin(">", Ref(inputs[0]), Ref("sh")))]
            loop = For("iq", ListIter(tuple(Num(v) for v in vals)), tuple(body))
        else:
            body = [Decl("Entity", "shl", Place("small-lamp", Bin("+", Bin("*", Ref("sh"), Num(2)), Num(60)), Num(-50))),
                    Assign("shl", "enable", Bin(">", Ref(inputs[0]), Ref("sh")))]
            loop = For("sh", ListIter(tuple(Num(v) for v in vals)), tuple(body))
        post = [Decl("Entity", "sha", Place("small-lamp", Num(90), Num(-50))),
                Assign("sha", "enable", Bin(">", Ref(inputs[0]), Ref("sh")))]
        stmts = pre + stmts + [loop] + post
        ints = dict(ints)
        ints["sh"] = outer_v
    if draw(st.integers(0, 3)) == 0:
        # a loop inside a function that configures an Entity parameter (and the same entity again after the loop)
        from .lang import ExprStmt

        info["func_loop"] = True
        a, b = draw(st.integers(-2, 3)), draw(st.integers(-2, 6))
        s_ = draw(st.sampled_from([None, 1, 2]))
        if a > b:
            a, b = b, a
        vals = iteration_values(Range(Num(a), Num(b), None if s_ is None else Num(s_)), {})
        inp = draw(st.sampled_from(inputs))
        body = [Assign("m", "enable", Bin(">", Ref("s"), Bin("*", Ref("iz"), Num(draw(st.integers(2, 10))))))]
        if draw(st.booleans()):
            body.append(Decl("Entity", "lz", Place("small-lamp", Bin("+", Bin("*", Ref("iz"), Num(2)), Num(-40)), Num(-30))))
            body.append(Assign("lz", "enable", Bin("<", Ref("s"), Ref("iz"))))
        fbody = [For("iz", Range(Num(a), Num(b), None if s_ is None else Num(s_)), tuple(body))]
        after = draw(st.booleans())
        if after:
            fbody.append(Assign("m", "enable", Bin(">", Ref("s"), Num(draw(st.integers(50, 99))))))
        extraA = [Decl("Entity", "master", Place("small-lamp", Num(-44), Num(-36))),
                  Func("fz", (("Entity", "m"), ("Signal", "s")), tuple(fbody)),
                  ExprStmt(Call("fz", (Ref("master"), Ref(inp))))]
        inl = subst(tuple(fbody), {"m": Ref("master"), "s": Ref(inp)}, {})
        extraB = [Decl("Entity", "master", Place("small-lamp", Num(-44), Num(-36)))] + unroll(list(inl), ints)
    progA = Program(tuple(stmts + extraA))
    progB = Program(tuple(unroll(stmts, ints) + extraB))
    return progA, progB, info


@st.composite
def func_case(draw, steer=True, allow_local_memory=False):
    """(program with functions and calls, the same program with the calls substituted)."""
    pal = Palette(True)
    types = list(draw(st.permutations(pal.types)))
    top = []
    inputs = []
    for i in range(draw(st.integers(2, 4))):
        n = f"in{i + 1}"
        top.append(Decl("Signal", n, SigLit(types.pop(), draw(num(small_int())))))
        inputs.append(n)
    ints = []
    for i in range(draw(st.integers(0, 2))):
        n = f"n{i + 1}"
        top.append(Decl("int", n, Num(draw(st.integers(-9, 9)))))
        ints.append(n)
    funcs = {}
    n_funcs = draw(st.integers(1, 2))
    for fi in range(n_funcs):
        fname = f"f{fi + 1}"
        params = []
        for pi in range(draw(st.integers(1, 3))):
            kind = draw(st.sampled_from(["Signal", "Signal", "int"]))
            # parameter names may deliberately coincide with caller names (hygiene)
            pname = draw(st.sampled_from([f"p{pi}", f"p{pi}", inputs[0] if not steer or True else f"p{pi}", f"x{pi}"]))
            if pname in [p[1] for p in params]:
                pname = f"p{pi}"
            params.append((kind, pname))
        sig_params = [p for k, p in params if k == "Signal"]
        int_params = [p for k, p in params if k == "int"]
        body = []
        locals_ = []
        cur_pool = list(sig_params)
        for bi in range(draw(st.integers(0, 2))):
            lname = draw(st.sampled_from([f"t{bi}", f"t{bi}", "tmp", inputs[-1]]))
            if lname in locals_ or lname in [p[1] for p in params]:
                lname = f"t{bi}"
            if not cur_pool:
                break
            src = cur_pool.pop(0)
            rhs = Ref(draw(st.sampled_from(int_params))) if int_params and draw(st.booleans()) else Num(draw(st.integers(1, 9)))
            body.append(Decl("Signal", lname, Bin(draw(st.sampled_from(["+", "*", "-", "XOR", ">"])), Ref(src), rhs)))
            locals_.append(lname)
            cur_pool.append(lname)
        ret_kind = draw(st.integers(0, 3))
        if not cur_pool:
            ret = Bin("+", Ref(int_params[0]), Num(1)) if int_params else Num(1)
        elif ret_kind == 0 or len(cur_pool) == 1:
            ret = Bin(draw(st.sampled_from(["+", "*", "-"])), Ref(cur_pool[0]), Num(draw(st.integers(1, 5))))
        elif ret_kind == 1:
            ret = Bin(draw(st.sampled_from(["+", "-", "*"])), Ref(cur_pool[0]), Ref(cur_pool[1]))
        else:
            ret = Cond(Bin(draw(st.sampled_from(CMPS)), Ref(cur_pool[0]), Num(draw(st.integers(0, 9)))), Ref(cur_pool[1] if len(cur_pool) > 1 else cur_pool[0]))
        if fi == 1 and draw(st.booleans()):  # nested call of f1 inside f2
            f1 = funcs["f1"]
            args = []
            ok = True
            pool2 = list(cur_pool)
            for k, _p in f1.params:
                if k == "Signal":
                    if pool2:
                        args.append(Ref(pool2.pop(0)))
                    else:
                        ok = False
                else:
                    args.append(Ref(int_params[0]) if int_params else Num(draw(st.integers(1, 5))))
            if ok:
                body.append(Decl("Signal", "inner", Call("f1", tuple(args))))
                ret = Bin("+", Ref("inner"), Num(draw(st.integers(0, 3))))
        funcs[fname] = Func(fname, tuple(params), tuple(body + [Return(ret)]))
    progA = list(top) + list(funcs.values())
    progB = list(top)
    free = list(inputs)
    call_no = 0

    def inline(fname, args, target, depth=0):
        """Statements that compute `target = fname(args)` by substitution."""
        nonlocal call_no
        call_no += 1
        f = funcs[fname]
        suffix = f"_c{call_no}"
        ren = {n: n + suffix for n in declared_names(f.body)}
        refs = {p: a for (_k, p), a in zip(f.params, args)}
        out = []
        for s in f.body:
            if isinstance(s, Return):
                out.append(Decl("Signal", target, subst(s.e, refs, ren)))
            elif isinstance(s, Decl) and isinstance(s.e, Call):
                inner_args = tuple(subst(a, refs, ren) for a in s.e.args)
                out += inline(s.e.f, inner_args, ren[s.name], depth + 1)
            else:
                out.append(subst(s, refs, ren))
        return out

    n_calls = draw(st.integers(1, 3))
    for ci in range(n_calls):
        fname = draw(st.sampled_from(sorted(funcs)))
        f = funcs[fname]
        args = []
        ok = True
        for k, _p in f.params:
            if k == "Signal":
                ak = draw(st.integers(0, 4))
                if ak == 0:
                    args.append(Num(draw(st.integers(1, 9))))  # int -> Signal coercion
                elif free:
                    args.append(Ref(free.pop(0) if steer else draw(st.sampled_from(inputs))))
                else:
                    args.append(Num(draw(st.integers(1, 9))))
            else:
                args.append(Ref(draw(st.sampled_from(ints))) if ints and draw(st.booleans()) else Num(draw(st.integers(-5, 9))))
        target = f"r{ci + 1}"
        progA.append(Decl("Signal", target, Call(fname, tuple(args))))
        progB += inline(fname, tuple(args), target)
    return Program(tuple(progA)), Program(tuple(progB))


# ------------------------------------------------------------------------------------------
# Layout-heavy programs (C08, C09, C18, C19, C07)
# ------------------------------------------------------------------------------------------

POLE_OPTIONS = [None, "small", "medium", "big", "substation"]


@st.composite
def spread_program(draw, steer=True, far=True, small_only=False, span=None, plain=False):
    """User entities 10-60 tiles apart sharing sources (relays needed), high fan-out of single-source
    consumers, optionally a gated cell / latch (their wires bypass the router) and a scalar block."""
    pal = Palette(True)
    types = list(draw(st.permutations(pal.types)))
    stmts = []
    ins = []
    for i in range(draw(st.integers(1, 3))):
        n = f"in{i + 1}"
        stmts.append(Decl("Signal", n, SigLit(types.pop(), draw(num(small_int())))))
        ins.append(n)
    n_ent = draw(st.integers(1, 7))
    if span is None:
        span = draw(st.sampled_from([8, 12, 20, 30, 45, 60])) if far else 6
    cells = draw(st.lists(st.tuples(st.integers(-2, 3), st.integers(-2, 2)), min_size=n_ent, max_size=n_ent, unique=True))
    protos = ["small-lamp", "small-lamp", "inserter", "transport-belt", "assembling-machine-1", "train-stop", "pump", "steel-chest"]
    if small_only:
        protos = ["small-lamp", "inserter", "transport-belt"]
    for i, (cx, cy) in enumerate(cells):
        proto = draw(st.sampled_from(protos))
        props = ()
        if proto == "train-stop" and draw(st.booleans()):
            props = (("station", draw(st.sampled_from(["Iron Pickup", "Depot", "A"]))),)
        if proto in ("inserter", "transport-belt") and draw(st.booleans()):
            props = (("direction", Num(draw(st.sampled_from([0, 4, 8, 12])))),)
        if proto == "small-lamp" and draw(st.integers(0, 3)) == 0:
            props = (("use_colors", Num(1)), ("always_on", Num(1)), ("color_mode", Num(1)))
        var = f"ent{i + 1}"
        jx, jy = (0, 0) if small_only else (draw(st.integers(0, 2)), draw(st.integers(0, 2)))
        stmts.append(Decl("Entity", var, Place(proto, Num(cx * span + jx), Num(cy * span + jy), props)))
        if proto != "steel-chest" and draw(st.integers(0, 5)) != 0:
            src = draw(st.sampled_from(ins))
            k = draw(st.integers(0, 3))
            if k <= 1:
                e = Bin(draw(st.sampled_from(CMPS)), Ref(src), draw(num(small_int())))
            elif k == 2:
                e = Ref(src)
            else:
                e = Bin(draw(st.sampled_from(CMPS)), Bin(draw(st.sampled_from(["+", "*", "%"])), Ref(src), Num(draw(st.integers(2, 7)))), draw(num(small_int())))
            stmts.append(Assign(var, "enable", e))
    extra = "none" if plain else draw(st.sampled_from(["none", "none", "memory", "latch", "scalar", "fanout"]))
    if extra == "memory":
        stmts += [Decl("Signal", "md", SigLit(types.pop(), Num(0))), Decl("Signal", "me", SigLit(types.pop(), Num(0))),
                  MemDecl("mm", types[0]), Write("mm", Proj(Ref("md"), types[0]), Bin(">", Ref("me"), Num(0))),
                  Decl("Signal", "mr", Bin("+", MemRead("mm"), Num(1)))]
    elif extra == "latch":
        stmts += [Decl("Signal", "ls", SigLit(types.pop(), Num(0))), Decl("Signal", "lt", SigLit(types.pop(), Num(0))),
                  MemDecl("lm", types[0]), Latch("lm", Num(draw(st.sampled_from([1, 5]))), Bin(">", Ref("ls"), Num(3)), Bin(">", Ref("lt"), Num(3)), True),
                  Decl("Signal", "lr", MemRead("lm"))]
    elif extra == "scalar":
        sub = draw(scalar_program(early_virtual=True, linear=steer, max_stmts=4, max_depth=2))
        from .lang import prefix_program

        stmts += list(prefix_program(sub, "s_").stmts)
    elif extra == "fanout":
        src = ins[0]
        for j in range(draw(st.integers(3, 9))):
            stmts.append(Decl("Signal", f"f{j}", Bin(draw(st.sampled_from(["+", "*", ">"])), Ref(src), Num(j + 1))))
    return Program(tuple(stmts))


@st.composite
def schedule(draw, faults=True):
    s = {"seed": draw(st.integers(0, 50)), "workers": draw(st.sampled_from([1, 1, 1, 4])),
         "det_time": draw(st.sampled_from([0.001, 0.01, 0.05, 0.05, 0.5]))}
    if faults:
        k = draw(st.integers(0, 9))
        if k == 0:
            s["fail_strategies"] = sorted(draw(st.sets(st.integers(0, 5), min_size=1, max_size=6)))
        elif k == 1:
            s["fail_routing"] = draw(st.integers(1, 2))
        elif k == 2:
            s["fail_strategies"] = list(range(0, 12))  # every strategy "finds nothing": fallback grid
        elif k == 3:
            s["untouched"] = True
    return s
