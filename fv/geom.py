"""Geometry from the game prototype data shipped with draftsman (collision boxes, tile
footprints, wire reach, supply areas). Independent of the compiler's own tables."""

from __future__ import annotations

import math
from functools import lru_cache


@lru_cache(maxsize=None)
def raw(name: str) -> dict:
    from draftsman.data import entities

    return entities.raw[name]


def collision_box(name: str):
    cb = raw(name).get("collision_box") or [[0, 0], [0, 0]]
    (x1, y1), (x2, y2) = cb
    return float(x1), float(y1), float(x2), float(y2)


def tile_size(name: str, direction: int = 0):
    r = raw(name)
    if "tile_width" in r and "tile_height" in r:
        w, h = int(r["tile_width"]), int(r["tile_height"])
    else:
        x1, y1, x2, y2 = collision_box(name)
        w, h = max(1, math.ceil(x2 - x1)), max(1, math.ceil(y2 - y1))
    if direction in (4, 12):  # east / west in 2.0's 16-direction encoding
        w, h = h, w
    return w, h


def rotated_box(name: str, direction: int = 0):
    x1, y1, x2, y2 = collision_box(name)
    d = direction % 16
    if d == 0:
        return x1, y1, x2, y2
    if d == 4:
        return -y2, x1, -y1, x2
    if d == 8:
        return -x2, -y2, -x1, -y1
    if d == 12:
        return y1, -x2, y2, -x1
    return x1, y1, x2, y2  # diagonal directions are not used by placed entities here


def world_box(name: str, pos, direction: int = 0):
    x1, y1, x2, y2 = rotated_box(name, direction)
    return pos[0] + x1, pos[1] + y1, pos[0] + x2, pos[1] + y2


def boxes_intersect(a, b, eps=1e-9) -> bool:
    return a[0] < b[2] - eps and b[0] < a[2] - eps and a[1] < b[3] - eps and b[1] < a[3] - eps


def top_left_tile(name: str, pos, direction: int = 0):
    w, h = tile_size(name, direction)
    return pos[0] - w / 2.0, pos[1] - h / 2.0


def circuit_reach(name: str) -> float:
    r = raw(name)
    if r.get("type") == "electric-pole":
        return float(r.get("maximum_wire_distance", 0))
    v = r.get("circuit_wire_max_distance")
    if v is None:
        v = r.get("maximum_wire_distance", 9)  # entities without the key use the default reach
    return float(v)


def copper_reach(name: str) -> float:
    return float(raw(name).get("maximum_wire_distance", 0))


def supply_radius(name: str) -> float:
    return float(raw(name).get("supply_area_distance", 0))


def is_pole(name: str) -> bool:
    return raw(name).get("type") == "electric-pole"


def consumes_electricity(name: str) -> bool:
    es = raw(name).get("energy_source")
    return isinstance(es, dict) and es.get("type") == "electric"


@lru_cache(maxsize=None)
def has_enable_flag(name: str) -> bool:
    """Does the 2.0 blueprint format give this prototype a `circuit_enabled` flag?
    (draftsman's data model of the format: lamps, inserters, belts, ... yes; pumps, power switches no)"""
    from draftsman.entity import new_entity

    try:
        return hasattr(new_entity(name), "circuit_enabled")
    except Exception:  # noqa: BLE001
        return True
