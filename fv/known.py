"""Known-findings support: narrow generator triggers (DESIGN.md section 5).

A trigger names a construction the generators steer around *while building a case* because a
listed open finding makes it fail.  The list of active triggers comes from known_findings.json
(read-only at run time); a trigger is switched off for a run when its witness no longer
reproduces, so the region is searched again.
"""

from __future__ import annotations

import json
import os

ROOT = os.path.dirname(os.path.dirname(os.path.abspath(__file__)))

COMMON_ASSUMPTIONS = [
    "Factorio 2.0 circuit model of /verif/fv/sim.py (DESIGN.md section 3): one tick latency per "
    "arithmetic/decider combinator, per-signal int32 wrap-around sums on a network, decider rows in "
    "disjunctive normal form (AND binds tighter than OR), blueprint defaults as in draftsman's 2.0 export",
    "reference meaning of Facto as tabulated in DESIGN.md section 3b (from LANGUAGE_SPEC.md / doc/*.md)",
    "a pass means 'held on everything explored'; nothing is proved",
]

_disabled: set[str] = set()
_cache = None


def set_disabled(names):
    global _disabled
    _disabled = set(names or ())


def _load():
    global _cache
    if _cache is None:
        path = os.path.join(ROOT, "known_findings.json")
        trig = set()
        if os.path.exists(path):
            with open(path) as fh:
                for e in json.load(fh).get("findings", []):
                    if e.get("status") == "open":
                        for t in ([e["trigger"]] if e.get("trigger") else []) + list(e.get("triggers", [])):
                            trig.add(t)
        _cache = trig
    return _cache


_strict = False


def strict(on: bool):
    """Strict mode (witness replays): no trigger is active, every oracle judges everything."""
    global _strict
    _strict = bool(on)


def active(trigger: str) -> bool:
    """True if generators / oracles must steer around `trigger`."""
    if _strict:
        return False
    return trigger in _load() and trigger not in _disabled
