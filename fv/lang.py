"""Abstract Facto programs: data model, pretty printer (minimal parentheses per the documented
precedence table) and the reference interpreter written from LANGUAGE_SPEC.md / doc/*.md.

The interpreter never sees the compiler's AST: the generator builds these objects, the printer
turns them into source text for the compiler, the interpreter gives the documented meaning.
"""

from __future__ import annotations

from dataclasses import dataclass, field

from .alu import INT_MAX, INT_MIN, Unmodelled, arith, compare, wrap

# ------------------------------------------------------------------------------------------
# Expressions
# ------------------------------------------------------------------------------------------


@dataclass(frozen=True)
class Num:
    v: int
    base: int = 10


@dataclass(frozen=True)
class Ref:
    name: str


@dataclass(frozen=True)
class TypeOf:
    """`name.type` used where a type literal is expected."""

    name: str


@dataclass(frozen=True)
class SigLit:
    ty: object  # str | TypeOf
    val: object  # constant expression


@dataclass(frozen=True)
class Bin:
    op: str
    l: object
    r: object


@dataclass(frozen=True)
class Un:
    op: str  # '-', '+', '!'
    e: object


@dataclass(frozen=True)
class Proj:
    e: object
    ty: object  # str | TypeOf


@dataclass(frozen=True)
class Cond:
    c: object
    v: object


@dataclass(frozen=True)
class BLit:
    elems: tuple


@dataclass(frozen=True)
class BSel:
    b: object
    ty: str


@dataclass(frozen=True)
class AnyOf:
    b: object


@dataclass(frozen=True)
class AllOf:
    b: object


@dataclass(frozen=True)
class Call:
    f: str
    args: tuple


@dataclass(frozen=True)
class MemRead:
    m: str


@dataclass(frozen=True)
class Place:
    proto: str
    x: object
    y: object
    props: tuple = ()  # ((key, value_expr_or_str), ...)


@dataclass(frozen=True)
class PropRead:
    e: str
    prop: str


@dataclass(frozen=True)
class Paren:
    """Redundant parentheses (printing only)."""

    e: object


# ------------------------------------------------------------------------------------------
# Statements
# ------------------------------------------------------------------------------------------


@dataclass(frozen=True)
class Decl:
    kind: str  # int | Signal | Bundle | Entity
    name: str
    e: object


@dataclass(frozen=True)
class MemDecl:
    name: str
    ty: object = None  # str | None


@dataclass(frozen=True)
class Write:
    m: str
    v: object
    when: object = None


@dataclass(frozen=True)
class Latch:
    m: str
    v: object
    set: object
    reset: object
    set_first: bool = True


@dataclass(frozen=True)
class Assign:
    target: str
    prop: object  # None for plain reassignment
    e: object


@dataclass(frozen=True)
class Range:
    a: object  # Num | Ref
    b: object
    step: object = None


@dataclass(frozen=True)
class ListIter:
    values: tuple  # of Num


@dataclass(frozen=True)
class For:
    var: str
    it: object
    body: tuple


@dataclass(frozen=True)
class Func:
    name: str
    params: tuple  # ((kind, name), ...)
    body: tuple


@dataclass(frozen=True)
class Return:
    e: object


@dataclass(frozen=True)
class Import:
    path: str


@dataclass(frozen=True)
class ExprStmt:
    e: object


@dataclass(frozen=True)
class Raw:
    """Verbatim source text (ill-formed mutants, C14)."""

    text: str


@dataclass(frozen=True)
class Program:
    stmts: tuple

    def text(self, **kw) -> str:
        return print_program(self, **kw)


ARITH_OPS = ("+", "-", "*", "/", "%", "**", "<<", ">>", "AND", "OR", "XOR")
CMP_OPS = ("==", "!=", "<", "<=", ">", ">=")
LOGIC_OPS = ("&&", "||")

# ------------------------------------------------------------------------------------------
# Printer
# ------------------------------------------------------------------------------------------

_LEVEL = {
    "||": 1, "&&": 2,
    "==": 4, "!=": 4, "<": 4, "<=": 4, ">": 4, ">=": 4,
    "OR": 6, "XOR": 7, "AND": 8, "<<": 9, ">>": 9, "+": 10, "-": 10,
    "*": 11, "/": 11, "%": 11, "**": 12,
}
L_COND, L_PROJ, L_UNARY, L_PRIMARY = 3, 5, 13, 14


def fmt_num(n: Num) -> str:
    v, base = n.v, n.base
    if base == 10 or v < 0:
        return str(v)
    if base == 16:
        return "0x%X" % v
    if base == 2:
        return "0b" + bin(v)[2:]
    if base == 8:
        return "0o" + oct(v)[2:]
    return str(v)


def fmt_type(t) -> str:
    if isinstance(t, TypeOf):
        return f"{t.name}.type"
    return '"%s"' % t


class Printer:
    def __init__(self, word_logic: bool = False, full_parens: bool = False):
        self.word_logic = word_logic
        self.full_parens = full_parens

    def level(self, e) -> int:
        if isinstance(e, Bin):
            return _LEVEL[e.op]
        if isinstance(e, Cond):
            return L_COND
        if isinstance(e, Proj):
            return L_PROJ
        if isinstance(e, Un):
            return L_UNARY
        return L_PRIMARY

    def sub(self, e, need: int) -> str:
        s = self.expr(e)
        if self.level(e) < need or (self.full_parens and self.level(e) < L_PRIMARY):
            return f"({s})"
        return s

    def expr(self, e) -> str:
        if isinstance(e, Num):
            return fmt_num(e)
        if isinstance(e, Ref):
            return e.name
        if isinstance(e, Paren):
            return f"({self.expr(e.e)})"
        if isinstance(e, SigLit):
            return f"({fmt_type(e.ty)}, {self.expr(e.val)})"
        if isinstance(e, Bin):
            lv = _LEVEL[e.op]
            op = e.op
            if self.word_logic and op == "&&":
                op = "and"
            elif self.word_logic and op == "||":
                op = "or"
            if e.op == "**":
                return f"{self.sub(e.l, L_UNARY)} {op} {self.sub(e.r, lv)}"
            return f"{self.sub(e.l, lv)} {op} {self.sub(e.r, lv + 1)}"
        if isinstance(e, Un):
            inner = self.sub(e.e, L_UNARY)
            if e.op in "+-" and inner[:1] in "+-":
                inner = f"({inner})" if not isinstance(e.e, Num) else inner
            return f"{e.op}{inner}"
        if isinstance(e, Proj):
            return f"{self.sub(e.e, L_PROJ)} | {fmt_type(e.ty)}"
        if isinstance(e, Cond):
            return f"{self.sub(e.c, 4)} : {self.sub(e.v, L_PRIMARY)}"
        if isinstance(e, BLit):
            if not e.elems:
                return "{}"
            return "{ " + ", ".join(self.expr(x) for x in e.elems) + " }"
        if isinstance(e, BSel):
            return f'{self.sub(e.b, L_PRIMARY)}["{e.ty}"]'
        if isinstance(e, AnyOf):
            return f"any({self.expr(e.b)})"
        if isinstance(e, AllOf):
            return f"all({self.expr(e.b)})"
        if isinstance(e, Call):
            return f"{e.f}({', '.join(self.expr(a) for a in e.args)})"
        if isinstance(e, MemRead):
            return f"{e.m}.read()"
        if isinstance(e, PropRead):
            return f"{e.e}.{e.prop}"
        if isinstance(e, Place):
            s = f'place("{e.proto}", {self.expr(e.x)}, {self.expr(e.y)}'
            if e.props:
                s += ", {" + ", ".join(f"{k}: {self.prop_val(v)}" for k, v in e.props) + "}"
            return s + ")"
        raise TypeError(f"cannot print {e!r}")

    def prop_val(self, v) -> str:
        if isinstance(v, str):
            return '"%s"' % v
        if isinstance(v, tuple):  # nested dict
            return "{" + ", ".join(f"{k}: {self.prop_val(x)}" for k, x in v) + "}"
        return self.expr(v)

    def bound(self, b) -> str:
        return fmt_num(b) if isinstance(b, Num) else b.name

    def stmt(self, s, ind: int = 0) -> list[str]:
        p = "    " * ind
        if isinstance(s, Decl):
            return [f"{p}{s.kind} {s.name} = {self.expr(s.e)};"]
        if isinstance(s, MemDecl):
            return [f"{p}Memory {s.name}" + (f': "{s.ty}"' if s.ty else "") + ";"]
        if isinstance(s, Write):
            if s.when is None:
                return [f"{p}{s.m}.write({self.expr(s.v)});"]
            return [f"{p}{s.m}.write({self.expr(s.v)}, when={self.expr(s.when)});"]
        if isinstance(s, Latch):
            if s.set_first:
                kw = f"set={self.expr(s.set)}, reset={self.expr(s.reset)}"
            else:
                kw = f"reset={self.expr(s.reset)}, set={self.expr(s.set)}"
            return [f"{p}{s.m}.write({self.expr(s.v)}, {kw});"]
        if isinstance(s, Assign):
            tgt = s.target if s.prop is None else f"{s.target}.{s.prop}"
            return [f"{p}{tgt} = {self.expr(s.e)};"]
        if isinstance(s, For):
            if isinstance(s.it, Range):
                it = f"{self.bound(s.it.a)}..{self.bound(s.it.b)}"
                if s.it.step is not None:
                    it += f" step {self.bound(s.it.step)}"
            else:
                it = "[" + ", ".join(fmt_num(v) for v in s.it.values) + "]"
            out = [f"{p}for {s.var} in {it} {{"]
            for b in s.body:
                out += self.stmt(b, ind + 1)
            return out + [p + "}"]
        if isinstance(s, Func):
            ps = ", ".join(f"{k} {n}" for k, n in s.params)
            out = [f"{p}func {s.name}({ps}) {{"]
            for b in s.body:
                out += self.stmt(b, ind + 1)
            return out + [p + "}"]
        if isinstance(s, Return):
            return [f"{p}return {self.expr(s.e)};"]
        if isinstance(s, Import):
            return [f'{p}import "{s.path}";']
        if isinstance(s, ExprStmt):
            return [f"{p}{self.expr(s.e)};"]
        if isinstance(s, Raw):
            return [p + ln for ln in s.text.split("\n")]
        raise TypeError(f"cannot print {s!r}")


def print_program(prog: Program, word_logic: bool = False, full_parens: bool = False) -> str:
    pr = Printer(word_logic, full_parens)
    lines: list[str] = []
    for s in prog.stmts:
        lines += pr.stmt(s)
    return "\n".join(lines) + "\n"


def stmt_lines(prog: Program, **kw) -> dict[int, int]:
    """Map top-level statement index -> 1-based source line of its first line."""
    pr = Printer(**kw)
    res, line = {}, 1
    for i, s in enumerate(prog.stmts):
        res[i] = line
        line += len(pr.stmt(s))
    return res


# ------------------------------------------------------------------------------------------
# Reference values
# ------------------------------------------------------------------------------------------

UNK = "?"  # a signal type the documentation does not pin (comparison / logical results)


@dataclass(frozen=True)
class IntV:
    v: int


@dataclass(frozen=True)
class SigV:
    ty: str  # explicit signal name, "~name" for an untyped value's own identity, or UNK
    v: int


@dataclass(frozen=True)
class BundleV:
    m: tuple  # sorted ((type, value), ...) with non-zero values

    @staticmethod
    def of(d: dict) -> "BundleV":
        return BundleV(tuple(sorted((k, v) for k, v in d.items() if v != 0)))

    def d(self) -> dict:
        return dict(self.m)


@dataclass(frozen=True)
class EntV:
    ident: int  # index into Interp.entities


@dataclass
class PlacedEntity:
    proto: str
    x: object
    y: object
    props: tuple
    var: str
    enable: object = None  # bool | None
    enable_const: bool = False
    writes: dict = field(default_factory=dict)


class RefError(Exception):
    """The abstract program is outside what the reference interpreter defines (generator bug
    or intentionally ill-formed)."""


def is_untyped(ty: str) -> bool:
    return ty.startswith("~")


def known_type(ty: str) -> bool:
    return ty != UNK and not ty.startswith("~")


# ------------------------------------------------------------------------------------------
# Reference interpreter
# ------------------------------------------------------------------------------------------


class Interp:
    """Evaluate a program under one valuation.

    inputs:   {name: int}      overrides of top-level input declarations
    mems:     {name: SigV}     value read from each memory cell (stateful oracles drive this)
    contents: {entity_var: {signal: int}}  what `.output` entities report
    """

    def __init__(self, prog: Program, inputs=None, mems=None, contents=None):
        self.prog = prog
        self.inputs = inputs or {}
        self.mems = mems or {}
        self.contents = contents or {}
        self.funcs: dict[str, Func] = {}
        self.entities: list[PlacedEntity] = []
        self.mem_types: dict[str, object] = {}
        self.writes: list = []  # (mem, kind, data...) evaluated write records
        self.top: dict[str, object] = {}
        self.decl_kind: dict[str, str] = {}
        self._fresh = 0
        self.types = None  # set to {} to record the reference type of every evaluated expression

    # -- statements ---------------------------------------------------------------------
    def run(self):
        env: dict[str, object] = {}
        self.top = env
        for s in self.prog.stmts:
            self.exec(s, env, top=True)
        return env

    def exec(self, s, env, top=False):
        if isinstance(s, Decl):
            if top and s.kind == "Signal" and s.name in self.inputs and is_input_decl(s):
                v = self.eval(s.e, env)
                ty = v.ty if isinstance(v, SigV) else "~" + s.name
                if isinstance(v, IntV):
                    ty = "~" + s.name
                env[s.name] = SigV(ty, wrap(self.inputs[s.name]))
            else:
                v = self.eval(s.e, env)
                env[s.name] = self.coerce_decl(s.kind, s.name, v)
            if isinstance(env[s.name], EntV):
                self.entities[env[s.name].ident].var = s.name
            if top:
                self.decl_kind[s.name] = s.kind
            return None
        if isinstance(s, MemDecl):
            self.mem_types[s.name] = s.ty
            env[s.name] = ("mem", s.name)
            return None
        if isinstance(s, Write):
            v = self.eval(s.v, env)
            w = self.eval(s.when, env) if s.when is not None else None
            self.writes.append(("write", s.m, v, w))
            return None
        if isinstance(s, Latch):
            self.writes.append(
                ("latch", s.m, self.eval(s.v, env), self.eval(s.set, env), self.eval(s.reset, env), s.set_first)
            )
            return None
        if isinstance(s, Assign):
            if s.prop is None:
                raise RefError("plain reassignment is not generated")
            ent = env.get(s.target)
            if not isinstance(ent, EntV):
                raise RefError(f"{s.target} is not an entity")
            v = self.eval(s.e, env)
            pe = self.entities[ent.ident]
            if s.prop == "enable":
                pe.enable = scalar(v) > 0
                pe.enable_const = isinstance(v, IntV)
            pe.writes[s.prop] = v
            return None
        if isinstance(s, For):
            for i in iteration_values(s.it, env):
                local = _Scope(env)
                local[s.var] = IntV(i)
                for b in s.body:
                    self.exec(b, local)
            return None
        if isinstance(s, Func):
            self.funcs[s.name] = s
            return None
        if isinstance(s, Return):
            return ("return", self.eval(s.e, env))
        if isinstance(s, ExprStmt):
            self.eval(s.e, env)
            return None
        if isinstance(s, (Import, Raw)):
            raise RefError("imports / raw text have no reference meaning here")
        raise RefError(f"unknown statement {s!r}")

    def coerce_decl(self, kind, name, v):
        if kind == "int":
            if not isinstance(v, IntV):
                raise RefError("int declaration of a non-int")
            return v
        if kind == "Signal":
            if isinstance(v, IntV):
                return SigV("~" + name, v.v)
            if isinstance(v, SigV):
                return v
            raise RefError("Signal declaration of a non-signal")
        if kind == "Bundle":
            if not isinstance(v, BundleV):
                raise RefError("Bundle declaration of a non-bundle")
            return v
        if kind == "Entity":
            if not isinstance(v, EntV):
                raise RefError("Entity declaration of a non-entity")
            return v
        raise RefError(kind)

    # -- expressions --------------------------------------------------------------------
    def type_of(self, t, env) -> str:
        if isinstance(t, TypeOf):
            v = env.get(t.name)
            if not isinstance(v, SigV):
                raise RefError(".type of a non-signal")
            return v.ty
        return t

    def eval(self, e, env):
        v = self._eval(e, env)
        if self.types is not None:
            self.types[id(e)] = v.ty if isinstance(v, SigV) else None
        return v

    def _eval(self, e, env):
        if isinstance(e, Num):
            return IntV(wrap(e.v))
        if isinstance(e, Paren):
            return self.eval(e.e, env)
        if isinstance(e, Ref):
            if e.name not in env:
                raise RefError(f"undefined {e.name}")
            return env[e.name]
        if isinstance(e, SigLit):
            v = self.eval(e.val, env)
            return SigV(self.type_of(e.ty, env), scalar(v))
        if isinstance(e, Un):
            v = self.eval(e.e, env)
            if isinstance(v, BundleV):
                raise RefError("unary on bundle")
            if e.op == "-":
                r = arith("-", 0, scalar(v))
                return IntV(r) if isinstance(v, IntV) else SigV(v.ty, r)
            if e.op == "+":
                return v
            if e.op == "!":
                r = 1 if scalar(v) == 0 else 0
                return IntV(r) if isinstance(v, IntV) else SigV(UNK, r)
            raise RefError(e.op)
        if isinstance(e, Proj):
            v = self.eval(e.e, env)
            ty = self.type_of(e.ty, env)
            if isinstance(v, BundleV):
                raise RefError("projection of a bundle")
            return SigV(ty, scalar(v))
        if isinstance(e, Bin):
            return self.binop(e, env)
        if isinstance(e, Cond):
            return self.cond(e, env)
        if isinstance(e, BLit):
            out: dict[str, int] = {}
            for x in e.elems:
                v = self.eval(x, env)
                if isinstance(v, SigV):
                    if not known_type(v.ty):
                        raise RefError("bundle member without a known type")
                    out[v.ty] = wrap(out.get(v.ty, 0) + v.v)
                elif isinstance(v, BundleV):
                    for k, x2 in v.m:
                        out[k] = wrap(out.get(k, 0) + x2)
                else:
                    raise RefError("int as bundle member")
            return BundleV.of(out)
        if isinstance(e, BSel):
            b = self.eval(e.b, env)
            if not isinstance(b, BundleV):
                raise RefError("selection from a non-bundle")
            return SigV(e.ty, b.d().get(e.ty, 0))
        if isinstance(e, (AnyOf, AllOf)):
            raise RefError("any()/all() outside a comparison")
        if isinstance(e, MemRead):
            if e.m not in self.mems:
                raise RefError(f"no modelled value for memory {e.m}")
            return self.mems[e.m]
        if isinstance(e, PropRead):
            ent = env.get(e.e)
            if not isinstance(ent, EntV):
                raise RefError("property read on a non-entity")
            if e.prop != "output":
                raise RefError("only .output reads are modelled")
            pe = self.entities[ent.ident]
            return BundleV.of({k: wrap(v) for k, v in self.contents.get(pe.var, {}).items()})
        if isinstance(e, Place):
            x, y = self.eval(e.x, env), self.eval(e.y, env)
            if not isinstance(x, IntV) or not isinstance(y, IntV):
                raise RefError("non-constant coordinates are not generated")
            props = tuple((k, self.prop_value(v, env)) for k, v in e.props)
            self.entities.append(PlacedEntity(e.proto, x.v, y.v, props, var=f"#{len(self.entities)}"))
            return EntV(len(self.entities) - 1)
        if isinstance(e, Call):
            return self.call(e, env)
        raise RefError(f"cannot evaluate {e!r}")

    def prop_value(self, v, env):
        if isinstance(v, str):
            return v
        if isinstance(v, tuple):
            return tuple((k, self.prop_value(x, env)) for k, x in v)
        r = self.eval(v, env)
        if not isinstance(r, IntV):
            raise RefError("non-constant static property")
        return r.v

    def call(self, e: Call, env):
        f = self.funcs.get(e.f)
        if f is None:
            raise RefError(f"undefined function {e.f}")
        if len(f.params) != len(e.args):
            raise RefError("arity")
        local = _Scope(self.top, barrier=True)
        for (kind, name), a in zip(f.params, e.args):
            v = self.eval(a, env)
            if kind == "Signal" and isinstance(v, IntV):
                self._fresh += 1
                v = SigV(f"~arg{self._fresh}", v.v)
            local[name] = v
        for s in f.body:
            r = self.exec(s, local)
            if r is not None:
                return r[1]
        return None

    def binop(self, e: Bin, env):
        op = e.op
        # any()/all() comparisons
        if op in CMP_OPS and isinstance(e.l, (AnyOf, AllOf)):
            b = self.eval(e.l.b, env)
            if not isinstance(b, BundleV):
                raise RefError("any/all of a non-bundle")
            rhs = scalar(self.eval(e.r, env))
            vals = [v for _, v in b.m]
            fop = _CMP[op]
            ok = any(compare(fop, v, rhs) for v in vals) if isinstance(e.l, AnyOf) else all(
                compare(fop, v, rhs) for v in vals)
            return SigV(UNK, 1 if ok else 0)
        l, r = self.eval(e.l, env), self.eval(e.r, env)
        if isinstance(l, BundleV) or isinstance(r, BundleV):
            if op not in ARITH_OPS:
                raise RefError("bare bundle comparison / logic")
            if isinstance(l, BundleV) and isinstance(r, BundleV):
                raise RefError("bundle op bundle")
            if isinstance(l, BundleV):
                s = scalar(r)
                return BundleV.of({k: arith(op, v, s) for k, v in l.m})
            s = scalar(l)
            return BundleV.of({k: arith(op, s, v) for k, v in r.m})
        a, b = scalar(l), scalar(r)
        if op in ARITH_OPS:
            res = arith(op, a, b)
            if isinstance(l, IntV) and isinstance(r, IntV):
                return IntV(res)
            if isinstance(l, SigV):
                return SigV(l.ty, res)
            return SigV(r.ty, res)
        if op in CMP_OPS:
            res = 1 if compare(_CMP[op], a, b) else 0
        elif op == "&&":
            res = 1 if (a != 0 and b != 0) else 0
        elif op == "||":
            res = 1 if (a != 0 or b != 0) else 0
        else:
            raise RefError(op)
        if isinstance(l, IntV) and isinstance(r, IntV):
            return IntV(res)
        return SigV(UNK, res)

    def truth(self, c, env) -> bool:
        v = self.eval(c, env)
        if isinstance(v, BundleV):
            raise RefError("bundle as condition")
        return scalar(v) != 0

    def cond(self, e: Cond, env):
        c = e.c
        while isinstance(c, Paren):
            c = c.e
        # bundle filter: (bundle CMP scalar) : bundle | int
        if isinstance(c, Bin) and c.op in CMP_OPS and not isinstance(c.l, (AnyOf, AllOf)):
            lv = self.eval(c.l, env)
            if isinstance(lv, BundleV):
                rhs = scalar(self.eval(c.r, env))
                out = self.eval(e.v, env)
                passing = {k: v for k, v in lv.m if compare(_CMP[c.op], v, rhs)}
                if isinstance(out, BundleV):
                    src = out.d()
                    return BundleV.of({k: src.get(k, 0) for k in passing})
                if isinstance(out, IntV):
                    return BundleV.of({k: out.v for k in passing})
                raise RefError("bundle filter with a signal output")
        ok = self.truth(c, env)
        out = self.eval(e.v, env)
        if isinstance(out, BundleV):
            return out if ok else BundleV(())
        if isinstance(out, IntV):
            return SigV(UNK, out.v if ok else 0)
        return SigV(out.ty, out.v if ok else 0)


class _Scope(dict):
    """Child scope: reads fall through to the parent, writes stay local."""

    def __init__(self, parent, barrier=False):
        super().__init__()
        self.parent = parent
        self.barrier = barrier

    def __contains__(self, k):
        return dict.__contains__(self, k) or k in self.parent

    def __getitem__(self, k):
        if dict.__contains__(self, k):
            return dict.__getitem__(self, k)
        return self.parent[k]

    def get(self, k, default=None):
        return self[k] if k in self else default


_CMP = {"==": "=", "!=": "!=", "<": "<", "<=": "<=", ">": ">", ">=": ">="}


def scalar(v) -> int:
    if isinstance(v, (IntV, SigV)):
        return v.v
    raise RefError(f"scalar expected, got {type(v).__name__}")


def iteration_values(it, env) -> list[int]:
    def val(b):
        if isinstance(b, Num):
            return b.v
        v = env[b.name]
        if not isinstance(v, IntV):
            raise RefError("loop bound is not a compile-time int")
        return v.v

    if isinstance(it, ListIter):
        return [v.v for v in it.values]
    a, b = val(it.a), val(it.b)
    step = val(it.step) if it.step is not None else 1
    if step == 0:
        raise RefError("zero step")
    out, i = [], a
    if step > 0:
        while i < b:
            out.append(i)
            i += step
    else:
        while i > b:
            out.append(i)
            i += step
    if len(out) > 5000:
        raise RefError("loop too long")
    return out


def is_input_decl(s) -> bool:
    """Top-level `Signal n = k;` or `Signal n = ("t", k);` with k an integer literal."""
    if not isinstance(s, Decl) or s.kind != "Signal":
        return False
    e = s.e
    if isinstance(e, Num):
        return True
    return isinstance(e, SigLit) and isinstance(e.ty, str) and isinstance(e.val, Num)


def input_decls(prog: Program) -> dict[str, Decl]:
    return {s.name: s for s in prog.stmts if is_input_decl(s)}


# ------------------------------------------------------------------------------------------
# Structural helpers
# ------------------------------------------------------------------------------------------


def children(e):
    if isinstance(e, (Num, Ref, MemRead, PropRead, TypeOf, str)) or e is None:
        return []
    if isinstance(e, SigLit):
        return [e.ty, e.val]
    if isinstance(e, Bin):
        return [e.l, e.r]
    if isinstance(e, (Un, Paren)):
        return [e.e]
    if isinstance(e, Proj):
        return [e.e, e.ty]
    if isinstance(e, Cond):
        return [e.c, e.v]
    if isinstance(e, BLit):
        return list(e.elems)
    if isinstance(e, BSel):
        return [e.b]
    if isinstance(e, (AnyOf, AllOf)):
        return [e.b]
    if isinstance(e, Call):
        return list(e.args)
    if isinstance(e, Place):
        return [e.x, e.y] + [v for _, v in e.props if not isinstance(v, (str, tuple))]
    return []


def refs_in_expr(e, acc=None) -> set:
    acc = set() if acc is None else acc
    if isinstance(e, Ref):
        acc.add(e.name)
    elif isinstance(e, TypeOf):
        acc.add(e.name)
    elif isinstance(e, PropRead):
        acc.add(e.e)
    elif isinstance(e, MemRead):
        acc.add(e.m)
    for c in children(e):
        refs_in_expr(c, acc)
    return acc


def stmt_exprs(s):
    if isinstance(s, Decl):
        return [s.e]
    if isinstance(s, Write):
        return [s.v] + ([s.when] if s.when is not None else [])
    if isinstance(s, Latch):
        return [s.v, s.set, s.reset]
    if isinstance(s, Assign):
        return [s.e]
    if isinstance(s, (Return, ExprStmt)):
        return [s.e]
    if isinstance(s, For):
        out = []
        if isinstance(s.it, Range):
            out += [b for b in (s.it.a, s.it.b, s.it.step) if isinstance(b, Ref)]
        for b in s.body:
            out += stmt_exprs(b)
        return out
    if isinstance(s, Func):
        out = []
        for b in s.body:
            out += stmt_exprs(b)
        return out
    return []


def referenced_names(prog: Program) -> set:
    acc: set = set()
    for s in prog.stmts:
        for e in stmt_exprs(s):
            refs_in_expr(e, acc)
        if isinstance(s, Assign):
            acc.add(s.target)
        if isinstance(s, (Write, Latch)):
            acc.add(s.m)
    return acc


def unconsumed_outputs(prog: Program) -> list[str]:
    """Top-level Signal/Bundle names no other statement mentions."""
    used = referenced_names(prog)
    return [s.name for s in prog.stmts if isinstance(s, Decl) and s.kind in ("Signal", "Bundle")
            and s.name not in used]


def expr_size(e) -> int:
    return 1 + sum(expr_size(c) for c in children(e) if not isinstance(c, str))


def ops_in(e, acc=None) -> set:
    acc = set() if acc is None else acc
    if isinstance(e, Bin):
        acc.add(e.op)
    elif isinstance(e, Un):
        acc.add("u" + e.op)
    elif isinstance(e, Proj):
        acc.add("|")
    elif isinstance(e, Cond):
        acc.add(":")
    elif isinstance(e, SigLit):
        acc.add("lit")
    elif isinstance(e, TypeOf):
        acc.add(".type")
    elif isinstance(e, BLit):
        acc.add("{}")
    elif isinstance(e, BSel):
        acc.add("[]")
    elif isinstance(e, AnyOf):
        acc.add("any")
    elif isinstance(e, AllOf):
        acc.add("all")
    elif isinstance(e, Call):
        acc.add("call")
    elif isinstance(e, MemRead):
        acc.add("read")
    elif isinstance(e, Place):
        acc.add("place")
    for c in children(e):
        ops_in(c, acc)
    return acc


def program_ops(prog: Program) -> set:
    acc: set = set()
    for s in prog.stmts:
        for e in stmt_exprs(s):
            ops_in(e, acc)
        if isinstance(s, For):
            acc.add("for")
        if isinstance(s, Func):
            acc.add("func")
        if isinstance(s, Write):
            acc.add("write" if s.when is None else "write_when")
        if isinstance(s, Latch):
            acc.add("latch")
    return acc


__all__ = [n for n in dir() if not n.startswith("_")]
assert INT_MAX and INT_MIN and Unmodelled


# ------------------------------------------------------------------------------------------
# Renaming (C12 composition, C13 twins, C15/C16 printers)
# ------------------------------------------------------------------------------------------

import dataclasses as _dc

_NAME_FIELDS = {
    "Ref": ("name",), "TypeOf": ("name",), "Decl": ("name",), "MemDecl": ("name",), "Write": ("m",), "Latch": ("m",),
    "MemRead": ("m",), "Assign": ("target",), "PropRead": ("e",), "For": ("var",), "Func": ("name",), "Call": ("f",),
}


def map_names(node, fn):
    """Rebuild `node` with every identifier passed through fn (signal type strings untouched)."""
    if isinstance(node, tuple):
        return tuple(map_names(x, fn) for x in node)
    if not _dc.is_dataclass(node) or isinstance(node, type):
        return node
    cls = type(node).__name__
    kw = {}
    for f in _dc.fields(node):
        v = getattr(node, f.name)
        if f.name in _NAME_FIELDS.get(cls, ()):
            kw[f.name] = fn(v)
        elif cls == "Func" and f.name == "params":
            kw[f.name] = tuple((k, fn(n)) for k, n in v)
        elif cls == "Place" and f.name == "props":
            kw[f.name] = tuple((k, x if isinstance(x, (str, tuple)) and not _dc.is_dataclass(x) else map_names(x, fn)) for k, x in v)
        elif cls in ("SigLit", "Proj") and f.name == "ty":
            kw[f.name] = map_names(v, fn) if _dc.is_dataclass(v) else v
        elif cls == "BSel" and f.name == "ty":
            kw[f.name] = v
        elif cls in ("MemDecl",) and f.name == "ty":
            kw[f.name] = v
        elif cls == "Raw":
            kw[f.name] = v
        elif cls == "Import":
            kw[f.name] = v
        elif cls == "Place" and f.name == "proto":
            kw[f.name] = v
        elif cls in ("Bin", "Un") and f.name == "op":
            kw[f.name] = v
        elif cls == "Decl" and f.name == "kind":
            kw[f.name] = v
        elif cls == "Assign" and f.name == "prop":
            kw[f.name] = v
        elif cls == "PropRead" and f.name == "prop":
            kw[f.name] = v
        else:
            kw[f.name] = map_names(v, fn)
    return type(node)(**kw)


def prefix_program(prog: Program, prefix: str) -> Program:
    return map_names(prog, lambda n: prefix + n)


def shift_places(node, dx: int, dy: int):
    """Translate every place() with literal coordinates."""
    if isinstance(node, tuple):
        return tuple(shift_places(x, dx, dy) for x in node)
    if not _dc.is_dataclass(node) or isinstance(node, type):
        return node
    if isinstance(node, Place) and isinstance(node.x, Num) and isinstance(node.y, Num):
        return Place(node.proto, Num(node.x.v + dx), Num(node.y.v + dy), node.props)
    return type(node)(**{f.name: shift_places(getattr(node, f.name), dx, dy) for f in _dc.fields(node)})


def subst(node, refs: dict, names: dict):
    """Substitute Ref(n) -> refs[n] (an expression) and rename identifiers via `names`."""
    if isinstance(node, tuple):
        return tuple(subst(x, refs, names) for x in node)
    if not _dc.is_dataclass(node) or isinstance(node, type):
        return node
    if isinstance(node, Ref):
        if node.name in refs:
            return refs[node.name]
        return Ref(names.get(node.name, node.name))
    if isinstance(node, TypeOf):
        if node.name in refs and isinstance(refs[node.name], Ref):
            return TypeOf(refs[node.name].name)
        return TypeOf(names.get(node.name, node.name))
    if isinstance(node, PropRead) and node.e in refs and isinstance(refs[node.e], Ref):
        return PropRead(refs[node.e].name, node.prop)
    if isinstance(node, Assign) and node.target in refs and isinstance(refs[node.target], Ref):
        return Assign(refs[node.target].name, node.prop, subst(node.e, refs, names))
    cls = type(node).__name__
    kw = {}
    for f in _dc.fields(node):
        v = getattr(node, f.name)
        if f.name in _NAME_FIELDS.get(cls, ()):
            kw[f.name] = names.get(v, v)
        elif isinstance(v, str) or v is None or isinstance(v, (int, bool)):
            kw[f.name] = v
        elif cls == "Place" and f.name == "props":
            kw[f.name] = tuple((k, x if isinstance(x, (str, tuple)) and not _dc.is_dataclass(x) else subst(x, refs, names)) for k, x in v)
        elif cls == "Func" and f.name == "params":
            kw[f.name] = v
        else:
            kw[f.name] = subst(v, refs, names)
    return type(node)(**kw)


def declared_names(stmts) -> list:
    out = []
    for s in stmts:
        if isinstance(s, (Decl, MemDecl)):
            out.append(s.name)
    return out


def _flatten_logic(e, op, acc):
    while isinstance(e, Paren):
        e = e.e
    if isinstance(e, Bin) and e.op == op:
        _flatten_logic(e.l, op, acc)
        _flatten_logic(e.r, op, acc)
    else:
        acc.append(e)
    return acc


def same_type_fanin(prog: Program, limit: int = 3) -> bool:
    """True if some combinator-to-be (operator, folded &&/|| chain, cond:value) receives `limit` or more
    distinct operands of one signal type according to the reference typing.  Abstract-level trigger
    predicate of the open finding F-three-same (two wire colours cannot separate three same-named sources)."""
    try:
        it = Interp(prog, inputs={}, mems={s.name: SigV(s.ty or UNK, 0) for s in prog.stmts if isinstance(s, MemDecl)})
        it.types = {}
        it.run()
    except Exception:  # noqa: BLE001
        return False
    types = it.types

    def strip(e):
        while isinstance(e, Paren):
            e = e.e
        return e

    def operands_of(e):
        e = strip(e)
        if isinstance(e, Cond):
            c = strip(e.c)
            ops = []
            if isinstance(c, Bin) and c.op in LOGIC_OPS:
                for part in _flatten_logic(c, c.op, []):
                    part = strip(part)
                    ops += [part.l, part.r] if isinstance(part, Bin) and part.op in CMP_OPS else [part]
            elif isinstance(c, Bin):
                ops += [c.l, c.r]
            else:
                ops.append(c)
            return ops + [e.v]
        if isinstance(e, Bin) and e.op in LOGIC_OPS:
            ops = []
            for part in _flatten_logic(e, e.op, []):
                part = strip(part)
                ops += [part.l, part.r] if isinstance(part, Bin) and part.op in CMP_OPS else [part]
            return ops
        if isinstance(e, Bin):
            return [e.l, e.r]
        return []

    def visit(e):
        ops = operands_of(e)
        seen = {}
        unknown = set()
        for o in ops:
            t = types.get(id(o))
            if t is None:
                continue
            key = repr(strip(o))
            if t == UNK:
                unknown.add(key)  # the compiler gives such a value *some* type: it may coincide with any other
                continue
            seen.setdefault(t, set()).add(key)
        if any(len(v) + len(unknown) >= limit for v in seen.values()) or len(unknown) >= limit:
            return True
        return any(visit(c) for c in children(e) if not isinstance(c, str))

    for s in prog.stmts:
        for e in stmt_exprs(s):
            if visit(e):
                return True
    return False


def shared_source_shape(prog: Program, ignore_reads: bool = False) -> bool:
    """True if a named signal is a direct operand of two or more combinators-to-be and one of those also
    has another signal operand: the wiring shape in which the open finding F-leak lives (sources wired on
    one colour to sinks that share another source end up on one network). Abstract-level predicate over
    the program text only; conservative (may say True for programs the compiler wires correctly)."""
    decls = {s.name: s for s in prog.stmts if isinstance(s, Decl)}

    def strip(e):
        while isinstance(e, Paren) or (isinstance(e, Un) and e.op == "+"):  # +x is x's own wire
            e = e.e
        return e

    def root(name, depth=0):
        d = decls.get(name)
        if d is None or depth > 20:
            return name
        e = strip(d.e)
        if isinstance(e, Ref) and d.kind == "Signal":
            return root(e.name, depth + 1)
        return name

    def is_const(e):
        e = strip(e)
        if isinstance(e, Num):
            return True
        if ignore_reads and isinstance(e, MemRead):
            return True  # readers of a memory cell are the cell's own business (C03 judges them)
        if isinstance(e, Ref):
            d = decls.get(e.name)
            return d is not None and d.kind == "int"
        if isinstance(e, Un):
            return is_const(e.e)
        if isinstance(e, Bin):
            return is_const(e.l) and is_const(e.r)
        return False

    uses: dict = {}  # source key -> list of (node id, number of distinct non-constant operands of that node)

    def key(e, depth=0):
        e = strip(e)
        if depth > 40:
            return ("deep", id(e))
        if isinstance(e, Ref):
            d = decls.get(e.name)
            if d is None or d.kind not in ("Signal", "Bundle") or is_input_decl(d):
                return ("n", e.name)
            return key(d.e, depth + 1)
        if isinstance(e, Num):
            return ("c", e.v)
        if isinstance(e, Bin):
            return ("b", e.op, key(e.l, depth + 1), key(e.r, depth + 1))
        if isinstance(e, Un):
            return ("u", e.op, key(e.e, depth + 1))
        if isinstance(e, Proj):
            return ("p", key(e.e, depth + 1), repr(e.ty))
        if isinstance(e, Cond):
            return ("?", key(e.c, depth + 1), key(e.v, depth + 1))
        if isinstance(e, BLit):
            return ("{}",) + tuple(key(x, depth + 1) for x in e.elems)
        if isinstance(e, BSel):
            return key(e.b, depth + 1)  # a selected member travels on the bundle's wire
        if isinstance(e, (AnyOf, AllOf)):
            return key(e.b, depth + 1)
        return ("x", repr(e))

    def operands(e):
        e = strip(e)
        if isinstance(e, Cond):
            return operands(e.c) + [e.v]
        if isinstance(e, Bin) and e.op in LOGIC_OPS:
            out = []
            for part in _flatten_logic(e, e.op, []):
                part = strip(part)
                out += [part.l, part.r] if isinstance(part, Bin) and part.op in CMP_OPS else [part]
            return out
        if isinstance(e, Bin):
            return [e.l, e.r]
        if isinstance(e, (Un, Proj)):
            return [e.e]
        if isinstance(e, BLit):
            return list(e.elems)  # a wire merge joins all its members and every consumer of the bundle on one network
        if isinstance(e, BSel):
            return [e.b]
        if isinstance(e, (AnyOf, AllOf)):
            return [e.b]
        return []

    def visit(e):
        e = strip(e)
        ops = operands(e)
        if ops:
            live = [strip(o) for o in ops if not is_const(o)]
            # sources are identified by what they compute, not by how they are named: two names (or two anonymous
            # sub-expressions) with the same defining expression are one combinator once CSE has run
            keys = [key(o) for o in live]
            distinct = len(set(keys))
            for k in set(keys):
                uses.setdefault(k, []).append((id(e), distinct))
            for o in ops:  # the absorbed comparison / chain parts are this same combinator: go on below them
                visit(o)
            return
        for c in children(e):
            if not isinstance(c, str):
                visit(c)

    for s in prog.stmts:
        for e in stmt_exprs(s):
            visit(e)
    for lst in uses.values():
        nodes = {}
        for nid, n in lst:
            nodes[nid] = max(nodes.get(nid, 0), n)
        if len(nodes) >= 2 and any(n >= 2 for n in nodes.values()):
            return True
    return False


def ir_floor_div_shape(prog: Program) -> bool:
    """True if the program divides two compile-time constants of opposite sign with a remainder where at
    least one of them is a *signal-typed* constant (projection of a constant, constant-valued name): the
    shape the IR optimiser folds with floor division (open finding F-irdiv). Plain int / int is folded
    on the syntax tree with truncation and is not meant."""
    from .alu import arith as _arith

    decls = {s.name: s for s in prog.stmts if isinstance(s, Decl)}

    def const(e, depth=0):
        """(value, is_plain_int) or None"""
        if depth > 30:
            return None
        if isinstance(e, Paren):
            return const(e.e, depth + 1)
        if isinstance(e, Num):
            return e.v, True
        if isinstance(e, SigLit):
            c = const(e.val, depth + 1) if not isinstance(e.val, int) else (e.val, True)
            return None if c is None else (c[0], False)
        if isinstance(e, Proj):
            c = const(e.e, depth + 1)
            return None if c is None else (c[0], False)
        if isinstance(e, Un) and e.op in ("-", "+"):
            c = const(e.e, depth + 1)
            return None if c is None else ((-c[0] if e.op == "-" else c[0]), c[1])
        if isinstance(e, Ref):
            d = decls.get(e.name)
            if d is None or is_input_decl(d):
                return None
            c = const(d.e, depth + 1)
            if c is None:
                return None
            return c[0], c[1] and d.kind == "int"
        if isinstance(e, Bin) and e.op in ARITH_OPS:
            l, r = const(e.l, depth + 1), const(e.r, depth + 1)
            if l is None or r is None:
                return None
            try:
                return _arith(e.op, l[0], r[0]), l[1] and r[1]
            except Exception:  # noqa: BLE001
                return None
        if isinstance(e, Bin) and (e.op in CMP_OPS or e.op in LOGIC_OPS):
            # comparisons and && / || of constants are decided at compile time; the result is a signal-typed 0/1
            l, r = const(e.l, depth + 1), const(e.r, depth + 1)
            if e.op == "||" and ((l is not None and l[0] != 0) or (r is not None and r[0] != 0)):
                return 1, False
            if e.op == "&&" and ((l is not None and l[0] == 0) or (r is not None and r[0] == 0)):
                return 0, False
            if l is None or r is None:
                return None
            if e.op in CMP_OPS:
                return (1 if compare(_CMP[e.op], l[0], r[0]) else 0), False
            return (1 if ((l[0] != 0 and r[0] != 0) if e.op == "&&" else (l[0] != 0 or r[0] != 0)) else 0), False
        if isinstance(e, Un) and e.op == "!":
            c = const(e.e, depth + 1)
            return None if c is None else ((1 if c[0] == 0 else 0), False)
        if isinstance(e, Cond):
            c = const(e.c, depth + 1)
            if c is None:
                return None
            if c[0] == 0:
                return 0, False
            v = const(e.v, depth + 1)
            return None if v is None else (v[0], False)
        return None

    def visit(e):
        if isinstance(e, Bin) and e.op == "/":
            l, r = const(e.l), const(e.r)
            if l is not None and r is not None and not (l[1] and r[1]):
                a, b = l[0], r[0]
                if b != 0 and (a < 0) != (b < 0) and a % b != 0:
                    return True
        return any(visit(c) for c in children(e) if not isinstance(c, str))

    return any(visit(e) for s in prog.stmts for e in stmt_exprs(s))


def cse_key(prog: Program):
    """Returns key(e): a structural key of what expression e computes, looking through names, parentheses,
    unary plus, folded integer sub-expressions and `cmp : 1` (the decider itself). Two expressions with the
    same key are one combinator after common-subexpression elimination."""
    from .alu import arith as _arith

    decls = {s.name: s for s in prog.stmts if isinstance(s, Decl)}

    def key(e, depth=0):
        while isinstance(e, Paren) or (isinstance(e, Un) and e.op == "+"):
            e = e.e
        if depth > 40:
            return ("deep", id(e))
        if isinstance(e, Ref):
            d = decls.get(e.name)
            if d is None or d.kind not in ("Signal", "Bundle", "int") or is_input_decl(d):
                return ("n", e.name)
            return key(d.e, depth + 1)
        if isinstance(e, Num):
            return ("c", e.v)
        if isinstance(e, Bin):
            l, r = key(e.l, depth + 1), key(e.r, depth + 1)
            if l[0] == "c" and r[0] == "c" and e.op in ARITH_OPS:
                try:
                    return ("c", _arith(e.op, l[1], r[1]))
                except Exception:  # noqa: BLE001
                    pass
            return ("b", e.op, l, r)
        if isinstance(e, Un):
            return ("u", e.op, key(e.e, depth + 1))
        if isinstance(e, Proj):
            return ("p", key(e.e, depth + 1), repr(e.ty))
        if isinstance(e, Cond):
            c, v = key(e.c, depth + 1), key(e.v, depth + 1)
            if v == ("c", 1) and c[0] == "b" and c[1] in CMP_OPS:
                return c
            return ("?", c, v)
        if isinstance(e, BLit):
            return ("{}",) + tuple(key(x, depth + 1) for x in e.elems)
        return ("x", repr(e))

    return key
