"""Observation of a compiled blueprint through the labels the compiler itself emits."""

from __future__ import annotations

from . import lang, sim


def input_combinators(circ: sim.Circuit) -> dict[str, int]:
    """name -> entity number of the constant combinator the compiler labels '<name> (value=.. (input))'."""
    out: dict[str, int] = {}
    dup = set()
    for e in circ.entities.values():
        if e.kind == "const" and e.desc["op"] and "(input)" in e.desc["op"] and e.desc["name"]:
            if e.desc["name"] in out:
                dup.add(e.desc["name"])
            out[e.desc["name"]] = e.num
    for d in dup:
        out.pop(d, None)
    return out


def apply_inputs(circ: sim.Circuit, prog: lang.Program, valuation: dict, inputs_map=None) -> list[str]:
    """Override declared inputs. Returns the names that have no labelled combinator."""
    inputs_map = dict(inputs_map if inputs_map is not None else input_combinators(circ))
    # the compiler labels a constant with the last alias declared for it (`Signal y = x;`,
    # `Bundle b = { x };`): resolve aliases back to the declared input
    alias = {}
    for s in prog.stmts:
        if isinstance(s, lang.Decl):
            e = s.e
            while isinstance(e, lang.Paren):
                e = e.e
            if isinstance(e, lang.BLit) and len(e.elems) == 1:
                e = e.elems[0]
            if isinstance(e, lang.Ref):
                alias[s.name] = alias.get(e.name, e.name)
    for a, root in alias.items():
        if root in valuation and root not in inputs_map and a in inputs_map:
            inputs_map[root] = inputs_map[a]
    missing = []
    for name, val in valuation.items():
        num = inputs_map.get(name)
        if num is None:
            missing.append(name)
            continue
        e = circ.entities[num]
        sigs = [f.get("name") for sec in (e.cb.get("sections") or {}).get("sections") or [] for f in sec.get("filters") or []]
        if len(sigs) != 1:
            missing.append(name)
            continue
        circ.set_constant(num, {sigs[0]: val})
    return missing


def observe(circ: sim.Circuit, name: str, lines=None):
    """(advertised signal, {signal: value}) for a named result, or None if it is not labelled.

    A named result is exposed either through its '(output anchor)' combinator (read the
    network at the anchor) or, when the producer is a constant combinator, by that combinator.
    """
    anchors = [e for e in circ.entities.values() if e.desc["name"] == name and e.desc["op"] == "output anchor"]
    if lines:
        # same-named function / loop locals: prefer the entities on the lines of the declaration that is meant
        labelled = [e for e in circ.entities.values() if e.desc["name"] == name]
        if any(e.desc["line"] in lines for e in labelled):
            anchors = [e for e in anchors if e.desc["line"] in lines]
    if len(anchors) == 1:
        a = anchors[0]
        return a.desc["signal"], circ.read_input(a.num), "anchor"
    if len(anchors) > 1:
        return None
    consts = [e for e in circ.entities.values() if e.kind == "const" and e.desc["name"] == name
              and e.desc["op"] != "output anchor"]
    if lines and any(e.desc["line"] in lines for e in consts):
        consts = [e for e in consts if e.desc["line"] in lines]
    if len(consts) == 1:
        return consts[0].desc["signal"], consts[0].const_signals(), "const"
    return None
