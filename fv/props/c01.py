"""C01 - scalar expressions compute what the source says, for every input."""

from __future__ import annotations

from hypothesis import strategies as st

from .. import gen, known, lang, obs, sim
from ..alu import Unmodelled
from . import common

ID = "C01"
LEVEL = "exploration"
RULE = ("Hypothesis grammar-directed stateless programs (inputs, int constants, DAG of Signal declarations over "
        "+ - * / % ** << >> AND OR XOR, comparisons, && || !, unary -, projection, .type, typed literals, cond:value; "
        "minimal-parenthesis printing, literals in bases 2/8/10/16) x int32 valuations; each case is compiled by the real "
        "compiler and executed in the circuit model; oracle = reference interpreter. Non-trivial: >=1 arithmetic/decider "
        "combinator emitted AND some checked output takes different reference values under two valuations. "
        "Distinct by hash of (program text, options, valuations).")
ASSUMPTIONS = ["type of comparison / logical results is not asserted (only explicit type, projection target, left operand of arithmetic)"]


def budget(tier):
    return {"examples": 2400 if tier == "quick" else 30000, "wall_s": 110 if tier == "quick" else 900}


@st.composite
def strategy_(draw, tier):
    early = not known.active("pool-ignores-explicit-vanilla-signals")
    linear = known.active("shared-network-leak")
    kind = draw(st.integers(0, 7))
    if kind == 0:
        prog = draw(gen.scalar_with_consumers(early_virtual=early, linear=linear))
    elif kind == 1:
        # repeated / operand-swapped sub-expressions: what CSE may and may not merge, judged absolutely
        prog = draw(gen.cse_program(early_virtual=early, leak_free=linear))
    else:
        prog = draw(gen.scalar_program(early_virtual=early, linear=linear))
    names = list(lang.input_decls(prog))
    n = 4 if tier == "quick" else 10
    vals = draw(gen.valuations(names, n))
    return {"kind": {0: "consumers", 1: "cse"}.get(kind, "scalar"), "prog": prog, "opts": draw(gen.print_opts()), "vals": vals,
            "optimize": draw(st.integers(0, 3)) != 0, "sched": {"seed": draw(st.integers(0, 3))}}


def strategy(tier):
    return strategy_(tier)


def run_case(case):
    prog = case["prog"]
    if known.active("three-same-signal-sources") and lang.same_type_fanin(prog):
        # open finding F-three-same: not judged, counted
        return {"discard": "excluded:F-three-same", "counters": {"excluded_by:F-three-same": 1}}
    if case.get("optimize", True) and known.active("ir-fold-floor-div") and lang.ir_floor_div_shape(prog):
        # open finding F-irdiv (C11): a signal-typed constant divided by a constant of the other sign is floored by the IR optimiser
        return {"discard": "excluded:F-irdiv", "counters": {"excluded_by:F-irdiv": 1}}
    if known.active("shared-network-leak") and lang.shared_source_shape(prog):
        # open finding F-leak: the CSE-bait generator is not built on the exclusive/shared naming discipline, and an
        # alias of a shared name escapes it
        return {"discard": "excluded:F-leak", "counters": {"excluded_by:F-leak": 1}}
    text, res = common.compile_case(case)
    if not res.accepted:
        return common.reject_result(res)
    outputs = lang.unconsumed_outputs(prog)
    try:
        circ = sim.load(res.bp)
    except sim.SimError as exc:
        return {"failures": [{"sig": "unexecutable-blueprint", "detail": str(exc)}], "sample": {"program": text}}
    inputs_map = obs.input_combinators(circ)
    fails, classes = [], set(lang.program_ops(prog))
    ncomb = circ.n_combinators()
    ref_seen: dict[str, set] = {}
    checked = 0
    skipped = 0
    sample_obs = []
    for val in case["vals"]:
        try:
            env = lang.Interp(prog, inputs=val).run()
        except Unmodelled:
            skipped += 1  # this valuation leaves the modelled ALU domain (e.g. a negative exponent); the others are judged
            continue
        try:
            ticks, missing = common.run_valuation(prog, circ, val, inputs_map)
        except Unmodelled:
            return {"discard": "unmodelled-sim"}
        except sim.SimError as exc:
            return {"failures": [{"sig": "unexecutable-blueprint", "detail": str(exc)}], "sample": {"program": text}}
        if missing:
            return {"discard": "input-unlabelled", "classes": ["input-unlabelled"]}
        if ticks is None:
            fails.append({"sig": "no-settle", "detail": {"valuation": val}})
            continue
        f, n, unobs = common.compare_named_outputs(prog, circ, env, outputs, label=str(val))
        checked += n
        fails += f
        for name in outputs:
            v = env.get(name)
            if isinstance(v, lang.SigV):
                ref_seen.setdefault(name, set()).add(v.v)
        if not sample_obs:
            sample_obs = [{"valuation": val, "reference": {n_: repr(env.get(n_)) for n_ in outputs}}]
        if unobs:
            classes.add("unobservable-output")
    if skipped == len(case["vals"]):
        return {"discard": "unmodelled"}
    if skipped:
        classes.add("some-valuations-unmodelled")
    varies = any(len(s) > 1 for s in ref_seen.values())
    classes.add(f"combinators:{min(ncomb, 10)}")
    classes.add("optimize" if case.get("optimize", True) else "no-optimize")
    # de-duplicate failure signatures within the case
    uniq = {}
    for f in fails:
        uniq.setdefault(f["sig"], f)
    return {
        "failures": list(uniq.values()),
        "nontrivial": ncomb >= 1 and varies and checked > 0,
        "classes": sorted(classes),
        "sample": {"program": text, "observed": sample_obs, "combinators": ncomb},
    }
