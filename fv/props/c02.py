"""C02 - bundle operations act member-wise and never leak foreign signals."""

from __future__ import annotations

from hypothesis import strategies as st

from .. import gen, known, lang, obs, sim
from ..alu import Unmodelled
from . import common

ID = "C02"
LEVEL = "exploration"
RULE = ("Hypothesis-generated stateless bundle programs (literals with constant, input, computed and nested members, "
        "each-arithmetic with all 11 operators and constant/signal scalars, filters (b CMP x):b / :k, gating (s CMP c):b, "
        "any()/all() comparisons, selection b[\"t\"]) x int32 valuations incl. zero and negative members; compiled by the real "
        "compiler, executed in the circuit model; oracle = reference interpreter, the WHOLE signal map on the anchor network of "
        "a bundle result must equal the reference map. Non-trivial: >=1 wildcard combinator emitted and some valuation gives a "
        "zero and a negative member in a checked bundle. Distinct by hash of (program text, valuations).")
ASSUMPTIONS = ["a bundle is the map of its non-zero members (as on a Factorio wire)",
               "signal-everything / signal-anything compared with a signal that is itself on the compared network is left unmodelled (case discarded)"]


def budget(tier):
    return {"examples": 1600 if tier == "quick" else 30000, "wall_s": 110 if tier == "quick" else 900}


@st.composite
def strategy_(draw, tier):
    prog = draw(gen.bundle_program(steer=known.active("shared-network-leak")))
    names = list(lang.input_decls(prog))
    vals = draw(gen.valuations(names, 4 if tier == "quick" else 10))
    # bias: make some members zero / negative
    for v in vals[:2]:
        for n in names:
            r = draw(st.integers(0, 5))
            if r == 0:
                v[n] = 0
            elif r == 1:
                v[n] = -abs(v[n]) or -1
    return {"prog": prog, "opts": {}, "vals": vals, "optimize": draw(st.integers(0, 3)) != 0,
            "sched": {"seed": draw(st.integers(0, 3))}}


def strategy(tier):
    return strategy_(tier)


def has_wildcard(circ):
    for e in circ.entities.values():
        if e.kind in ("arith", "decider") and "signal-e" in str(e.cb) or "signal-anything" in str(e.cb):
            return True
    return False


def run_case(case):
    prog = case["prog"]
    if known.active("shared-network-leak") and lang.shared_source_shape(prog):
        # open finding F-leak: a source that reaches two consumers, one of which has another source (an alias of a bundle,
        # or two equal member expressions merged by CSE, escapes the generator's naming discipline)
        return {"discard": "excluded:F-leak", "counters": {"excluded_by:F-leak": 1}}
    text, res = common.compile_case(case)
    if not res.accepted:
        return common.reject_result(res)
    outputs = lang.unconsumed_outputs(prog)
    try:
        circ = sim.load(res.bp)
    except sim.SimError as exc:
        return {"failures": [{"sig": "unexecutable-blueprint", "detail": str(exc)}], "sample": {"program": text}}
    inputs_map = obs.input_combinators(circ)
    fails, classes = [], set(lang.program_ops(prog))
    zero_neg = False
    checked = 0
    sample_obs = []
    for val in case["vals"]:
        try:
            env = lang.Interp(prog, inputs=val).run()
            ticks, missing = common.run_valuation(prog, circ, val, inputs_map)
        except Unmodelled:
            return {"discard": "unmodelled"}
        except sim.SimError as exc:
            return {"failures": [{"sig": "unexecutable-blueprint", "detail": str(exc)}], "sample": {"program": text}}
        if missing:
            return {"discard": "input-unlabelled", "classes": ["input-unlabelled"]}
        if ticks is None:
            fails.append({"sig": "no-settle", "detail": {"valuation": val}})
            continue
        f, n, unobs = common.compare_named_outputs(prog, circ, env, outputs, label=str(val))
        checked += n
        fails += f
        if unobs:
            classes.add("unobservable-output")
        for name in outputs:
            v = env.get(name)
            if isinstance(v, lang.BundleV):
                ins = [val[i] for i in val]
                if any(x == 0 for x in ins) and any(x < 0 for x in ins):
                    zero_neg = True
        if not sample_obs:
            sample_obs = [{"valuation": val, "reference": {n_: repr(env.get(n_)) for n_ in outputs}}]
    uniq = {}
    for f in fails:
        uniq.setdefault(f["sig"], f)
    wc = has_wildcard(circ)
    classes.add("wildcard" if wc else "no-wildcard")
    return {
        "failures": list(uniq.values()),
        "nontrivial": wc and zero_neg and checked > 0,
        "classes": sorted(classes),
        "sample": {"program": text, "observed": sample_obs},
    }
