"""C03 - a gated memory cell latches the written value and holds it."""

from __future__ import annotations

from hypothesis import strategies as st

from .. import gen, known, lang, obs, sim
from ..alu import Unmodelled
from . import common

ID = "C03"
LEVEL = "exploration"
RULE = ("Hypothesis-generated programs with 1-3 standard cells `m.write(v, when=c)`; v any stateless expression of the cell's "
        "data inputs, c a tree-shaped enable expression over disjoint enable inputs that is 0 at the all-zero state (so the "
        "pasted circuit starts at rest); 1-3 readers per cell (direct, through arithmetic, through a comparison, projected). "
        "History: 8-30 steps, each sets one input (values biased to the thresholds, to 0/1/>1/negative enables, int32 data) and "
        "is held until the simulated circuit settles. Oracle: per-cell state machine (0 initially, follows v while c>0, holds "
        "while c==0, unspecified after c<0 until the next c>0); every reader compared after every step; a second settle must "
        "leave readers unchanged. Non-trivial: some cell goes write -> hold -> data change while held -> write again. "
        "Distinct by hash of (program text, history).")
ASSUMPTIONS = ["a settled enable < 0 is unspecified by the documentation; readers of that cell are not compared until the next positive enable"]


def budget(tier):
    return {"examples": 1200 if tier == "quick" else 20000, "wall_s": 110 if tier == "quick" else 900}


@st.composite
def strategy_(draw, tier):
    prog, ths = draw(gen.gated_memory_program(steer=known.active("shared-network-leak")))
    names = list(lang.input_decls(prog))
    n = draw(st.integers(8, 30 if tier == "thorough" else 20))
    hist = draw(gen.history(names, ths, n))
    return {"prog": prog, "opts": {}, "hist": [list(h) for h in hist], "optimize": draw(st.integers(0, 3)) != 0,
            "sched": {"seed": draw(st.integers(0, 3))}}


def strategy(tier):
    return strategy_(tier)


def cell_types(prog, interp):
    tys = {}
    for s in prog.stmts:
        if isinstance(s, lang.MemDecl):
            tys[s.name] = s.ty
    return tys


def run_case(case):
    prog = case["prog"]
    if known.active("shared-network-leak") and lang.shared_source_shape(prog, ignore_reads=True):
        # open finding F-leak: an input that feeds two enable / data trees (equal sub-expressions are one combinator after CSE)
        return {"discard": "excluded:F-leak", "counters": {"excluded_by:F-leak": 1}}
    text, res = common.compile_case(case)
    if not res.accepted:
        return common.reject_result(res)
    try:
        circ = sim.load(res.bp)
    except sim.SimError as exc:
        return {"failures": [{"sig": "unexecutable-blueprint", "detail": str(exc)}], "sample": {"program": text}}
    inputs_map = obs.input_combinators(circ)
    names = list(lang.input_decls(prog))
    outputs = lang.unconsumed_outputs(prog)
    decl = {s.name: s for s in prog.stmts if isinstance(s, lang.Decl)}
    reads_of = {n: {m for m in lang.refs_in_expr(decl[n].e)} for n in outputs}
    mem_ty = {s.name: s.ty for s in prog.stmts if isinstance(s, lang.MemDecl)}
    val = {n: 0 for n in names}
    state = {m: 0 for m in mem_ty}
    unspec = set()
    phase = {m: [] for m in mem_ty}  # event log per cell for the non-triviality rule
    fails = []
    circ.reset()
    steps = [(None, None)] + [tuple(h) for h in case["hist"]]
    trace = []
    try:
        for name, v in steps:
            if name is not None:
                val[name] = v
            missing = obs.apply_inputs(circ, prog, val, inputs_map)
            if [m for m in missing if m in lang.referenced_names(prog)]:
                return {"discard": "input-unlabelled"}
            ticks = circ.settle(max_ticks=120)
            if ticks is None:
                fails.append({"sig": "no-settle", "detail": {"step": [name, v]}})
                break
            # model update
            it = lang.Interp(prog, inputs=val, mems={m: lang.SigV(mem_ty[m] or lang.UNK, state[m]) for m in mem_ty})
            it.run()
            for w in it.writes:
                _, m, dv, wv = w
                c = lang.scalar(wv) if wv is not None else 1
                if mem_ty[m] is None and isinstance(dv, lang.SigV) and lang.known_type(dv.ty):
                    mem_ty[m] = dv.ty
                if c > 0:
                    state[m] = lang.scalar(dv)
                    unspec.discard(m)
                    phase[m].append("W")
                elif c == 0:
                    phase[m].append("H" if name is None or not name.startswith("d") else "Hd")
                else:
                    unspec.add(m)
                    phase[m].append("N")
            it2 = lang.Interp(prog, inputs=val, mems={m: lang.SigV(mem_ty[m] or lang.UNK, state[m]) for m in mem_ty})
            env = it2.run()
            check = [n for n in outputs if not (reads_of[n] & unspec)]
            f, _n, _u = common.compare_named_outputs(prog, circ, env, check, label=f"step {name}={v}")
            wshape = ";".join(sorted({",".join(sorted(lang.ops_in(s_.v))) + "/" + ",".join(sorted(lang.ops_in(s_.when)))
                                      for s_ in prog.stmts if isinstance(s_, lang.Write)}))[:60]
            for x in f:
                x["sig"] += "|" + wshape
            fails += f
            before = {n: obs.observe(circ, n) for n in outputs}
            for _ in range(3):
                circ.step()
            after = {n: obs.observe(circ, n) for n in outputs}
            if before != after:
                fails.append({"sig": "reader-not-stable", "detail": {"step": [name, v]}})
            trace.append({"step": [name, v], "cells": dict(state)})
            if fails:
                break
    except Unmodelled:
        return {"discard": "unmodelled"}
    except sim.SimError as exc:
        return {"failures": [{"sig": "unexecutable-blueprint", "detail": str(exc)}], "sample": {"program": text}}
    nontrivial = False
    for m, ev in phase.items():
        s = "".join("h" if e == "Hd" else e[0] for e in ev)
        # write, then hold, then a data change while held, then write again
        i = s.find("W")
        if i >= 0:
            j = s.find("H", i)
            if j >= 0:
                k = s.find("h", j)
                if k >= 0 and s.find("W", k) >= 0:
                    nontrivial = True
    uniq = {}
    for f in fails:
        uniq.setdefault(f["sig"], f)
    classes = {"cells:%d" % len(mem_ty), "optimize" if case.get("optimize", True) else "no-optimize"}
    if unspec or any("N" in ev for ev in phase.values()):
        classes.add("negative-enable")
    if any(t is None for t in [s.ty for s in prog.stmts if isinstance(s, lang.MemDecl)]):
        classes.add("inferred-type")
    return {"failures": list(uniq.values()), "nontrivial": nontrivial and not fails, "classes": sorted(classes),
            "sample": {"program": text, "history": case["hist"][:8], "model_trace": trace[:6]}}
