"""C04 - self-referential writes iterate the written function exactly."""

from __future__ import annotations

from hypothesis import strategies as st

from .. import gen, lang, obs, sim
from ..alu import Unmodelled
from . import common

ID = "C04"
LEVEL = "exploration"
RULE = ("Hypothesis-generated `m.write(f(m.read()))` programs: f a chain of 1-6 arithmetic steps over the cell, constants and "
        "held inputs (counters, modulo clocks, accumulators, xor/shift mixes), via named intermediates or one nested expression, "
        "optionally ending in a decider (two-gate cell kept), optimisation on/off, 1-3 readers; the blueprint is run for "
        "T = 12*(k+3) ticks from the all-zero state. Oracle: there is one L in 1..k+3 with x(t+L) = f(x(t)) for every tick "
        "t >= W (W = k+2 warm-up for side inputs) on the direct reader's trace, f evaluated by the reference interpreter; every "
        "other reader r = g(m.read()) satisfies r(t+d) = g(x(t)) for one fixed d. Non-trivial: the trace takes >= 4 distinct "
        "values. Distinct by hash of (program text, held-input valuation).")
ASSUMPTIONS = ["warm-up: the relation is asserted from tick W = k+2 on, because held inputs reach side branches with their own latency"]


def budget(tier):
    return {"examples": 2400 if tier == "quick" else 20000, "wall_s": 110 if tier == "quick" else 900}


@st.composite
def strategy_(draw, tier):
    prog = draw(gen.feedback_program())
    names = list(lang.input_decls(prog))
    val = {n: draw(st.integers(-9, 40)) for n in names}
    return {"prog": prog, "opts": {}, "vals": [val], "optimize": draw(st.integers(0, 2)) != 0,
            "sched": {"seed": draw(st.integers(0, 3))}}


def strategy(tier):
    return strategy_(tier)


def f_of(prog, val, x, mty):
    it = lang.Interp(prog, inputs=val, mems={"m": lang.SigV(mty, x)})
    env = it.run()
    w = [w for w in it.writes if w[0] == "write"][0]
    return lang.scalar(w[2]), env


def in_domain(prog):
    """The write must be unconditional and (transitively through named steps) depend on m.read()."""
    dep = set()
    for s in prog.stmts:
        if isinstance(s, lang.Decl) and s.kind == "Signal":
            r = lang.refs_in_expr(s.e)
            if "m" in r or r & dep:
                dep.add(s.name)
    ws = [s for s in prog.stmts if isinstance(s, lang.Write)]
    if len(ws) != 1 or ws[0].when is not None:
        return False
    r = lang.refs_in_expr(ws[0].v)
    return "m" in r or bool(r & dep)


def run_case(case):
    prog = case["prog"]
    if not in_domain(prog) or not any(isinstance(s, lang.Decl) and s.name == "r0" for s in prog.stmts):
        return {"discard": "out-of-domain"}
    text, res = common.compile_case(case)
    if not res.accepted:
        return common.reject_result(res)
    try:
        circ = sim.load(res.bp)
    except sim.SimError as exc:
        return {"failures": [{"sig": "unexecutable-blueprint", "detail": str(exc)}], "sample": {"program": text}}
    val = case["vals"][0]
    mty = next(s.ty for s in prog.stmts if isinstance(s, lang.MemDecl))
    k = sum(1 for s in prog.stmts if isinstance(s, lang.Decl) and s.name.startswith("s")) + 1
    ncomb = circ.n_combinators()
    kk = max(k, ncomb)
    T = 12 * (kk + 3)
    readers = [s.name for s in prog.stmts if isinstance(s, lang.Decl) and s.name.startswith("r")]
    circ.reset()
    missing = obs.apply_inputs(circ, prog, val)
    if [m for m in missing if m in lang.referenced_names(prog)]:
        return {"discard": "input-unlabelled"}
    traces = {r: [] for r in readers}
    sigs = {}
    try:
        for _t in range(T):
            for r in readers:
                o = obs.observe(circ, r)
                if o is None:
                    return {"discard": "reader-unlabelled", "classes": ["reader-unlabelled"]}
                adv, net, _how = o
                sigs[r] = adv
                traces[r].append(net.get(adv, 0))
            circ.step()
    except Unmodelled:
        return {"discard": "unmodelled"}
    except sim.SimError as exc:
        return {"failures": [{"sig": "unexecutable-blueprint", "detail": str(exc)}], "sample": {"program": text}}
    x = traces["r0"]
    fails = []
    W = kk + 2
    try:
        fx = [f_of(prog, val, v, mty)[0] for v in x]
    except Unmodelled:
        return {"discard": "unmodelled"}
    if sigs.get("r0") != mty:
        fails.append({"sig": "type", "detail": {"want": mty, "advertised": sigs.get("r0")}})
    Ls = [L for L in range(1, kk + 4) if all(x[t + L] == fx[t] for t in range(W, T - L))]
    distinct = len(set(x))
    if not Ls:
        fails.append({"sig": "no-latency-fits", "detail": {"trace": x[:40], "f(trace)": fx[:40], "combinators": ncomb}})
    else:
        # other readers: r(t+d) = g(x(t))
        for r in readers:
            if r == "r0":
                continue
            try:
                want = []
                for v in x:
                    env = f_of(prog, val, v, mty)[1]
                    want.append(lang.scalar(env[r]))
            except Unmodelled:
                return {"discard": "unmodelled"}
            ds = [d for d in range(0, 4) if all(traces[r][t + d] == want[t] for t in range(W, T - d))]
            if not ds:
                fails.append({"sig": "reader-mismatch", "detail": {"reader": r, "trace": traces[r][:30], "g(x)": want[:30], "x": x[:30]}})
    classes = {"optimize" if case.get("optimize", True) else "no-optimize", f"chain:{k}", f"combinators:{min(ncomb, 9)}"}
    if Ls:
        classes.add(f"L={Ls[0]}")
    has_dec = any(e.kind == "decider" for e in circ.entities.values())
    classes.add("two-gate-cell" if has_dec else "arithmetic-feedback")
    return {"failures": fails, "nontrivial": distinct >= 4 and not fails, "classes": sorted(classes),
            "sample": {"program": text, "held": val, "trace": x[:24], "L": Ls[:1]}}
