"""C05 - set/reset latches obey set, reset, hold and the declared priority."""

from __future__ import annotations

from hypothesis import strategies as st

from .. import gen, known, lang, obs, sim
from ..alu import Unmodelled
from . import common

ID = "C05"
LEVEL = "exploration"
RULE = ("Hypothesis-generated latch programs: both argument orders; set/reset as boolean input signals (values 0/1), as "
        "comparisons on one shared input (compiler inlines them), on two different inputs, or mixed; all six comparators; "
        "thresholds overlapping/disjoint/equal; value 1, other constants or a signal; memory type equal to or different from "
        "the compared input's type; conditions written inline or through named signals. History: 10-28 steps, each sets one "
        "input to a value at / next to a threshold or an extreme and is held until the simulated circuit settles. Oracle: 1-bit "
        "model with the documented priority (first-named argument wins when both are active); reader = v if on else 0. "
        "Non-trivial: the history enters the both-active region and has a hold step afterwards. Distinct by (program, history).")
ASSUMPTIONS = ["set/reset given as plain signals are driven with 0/1 only (what the documentation promises)"]


def budget(tier):
    return {"examples": 3200 if tier == "quick" else 24000, "wall_s": 110 if tier == "quick" else 900}


@st.composite
def strategy_(draw, tier):
    prog, ths, booleans = draw(gen.latch_program())
    names = [n for n in lang.input_decls(prog) if n != "val"]
    steps = []
    for _ in range(draw(st.integers(10, 28 if tier == "thorough" else 20))):
        n = draw(st.sampled_from(sorted(names)))
        if n in booleans:
            v = draw(st.sampled_from([0, 1]))
        else:
            t = draw(st.sampled_from(ths.get(n) or [0]))
            v = draw(st.sampled_from([t - 1, t, t + 1, t, t + 1, t - 1, -1000, 1000, 0]))
        steps.append([n, v])
    return {"prog": prog, "opts": {}, "hist": steps, "optimize": draw(st.integers(0, 3)) != 0,
            "sched": {"seed": draw(st.integers(0, 3))}}


def strategy(tier):
    return strategy_(tier)


def run_case(case):
    prog = case["prog"]
    lat = [s for s in prog.stmts if isinstance(s, lang.Latch)]
    if len(lat) != 1:
        return {"discard": "out-of-domain"}
    lat = lat[0]
    text, res = common.compile_case(case)
    if not res.accepted:
        return common.reject_result(res)
    try:
        circ = sim.load(res.bp)
    except sim.SimError as exc:
        return {"failures": [{"sig": "unexecutable-blueprint", "detail": str(exc)}], "sample": {"program": text}}
    inputs_map = obs.input_combinators(circ)
    decls = lang.input_decls(prog)
    val = {}
    for n, d in decls.items():
        e = d.e
        val[n] = e.val.v if isinstance(e, lang.SigLit) else e.v
    outputs = [n for n in lang.unconsumed_outputs(prog) if n.startswith("r")]
    mty = next(s.ty for s in prog.stmts if isinstance(s, lang.MemDecl))
    on = False
    fails, both_seen, hold_after_both = [], False, False
    circ.reset()
    shape = "%s|%s|%s|%s" % ("SR" if lat.set_first else "RS", ",".join(sorted(lang.ops_in(lat.set))) or "sig",
                             ",".join(sorted(lang.ops_in(lat.reset))) or "sig",
                             "v1" if lat.v == lang.Num(1) else ("vconst" if isinstance(lat.v, lang.Num) else "vsig"))
    trace = []
    prev, unspecified, excluded = None, False, {}
    try:
        for name, v in [(None, None)] + [tuple(h) for h in case["hist"]]:
            if name is not None:
                if name not in val:
                    return {"discard": "out-of-domain"}
                val[name] = v
            missing = obs.apply_inputs(circ, prog, val, inputs_map)
            if [m for m in missing if m in lang.referenced_names(prog)]:
                return {"discard": "input-unlabelled"}
            if circ.settle(max_ticks=80) is None:
                fails.append({"sig": "no-settle|" + shape, "detail": {"step": [name, v]}})
                break
            it = lang.Interp(prog, inputs=val, mems={"m": lang.SigV(mty, 0)})
            it.run()
            rec = [w for w in it.writes if w[0] == "latch"][0]
            _, _m, vv, sv, rv, set_first = rec
            s_act, r_act = lang.scalar(sv) != 0, lang.scalar(rv) != 0
            if prev is not None and s_act != prev[0] and r_act != prev[1] and known.active("latch-path-skew"):
                # open finding: set and reset reach the latch with different latency, so a step
                # that flips both at once is a race; the state is not judged until it is re-defined
                unspecified = True
                excluded["latch-path-skew"] = excluded.get("latch-path-skew", 0) + 1
            if s_act and r_act:
                if not set_first and known.active("rs-both-active"):
                    unspecified = True
                    excluded["rs-both-active"] = excluded.get("rs-both-active", 0) + 1
                on = set_first
                both_seen = True
            elif s_act:
                on = True
                unspecified = False
            elif r_act:
                on = False
                unspecified = False
            elif both_seen:
                hold_after_both = True
            prev = (s_act, r_act)
            trace.append({"step": [name, v], "set": s_act, "reset": r_act, "on": None if unspecified else on})
            if unspecified:
                continue
            value = lang.scalar(vv) if on else 0
            env = lang.Interp(prog, inputs=val, mems={"m": lang.SigV(mty, value)}).run()
            f, _n, _u = common.compare_named_outputs(prog, circ, env, outputs, label=f"step {name}={v} set={s_act} reset={r_act}")
            for x in f:
                x["sig"] += "|" + shape
                x["detail"]["model_on"] = on
            fails += f
            if fails:
                break
    except Unmodelled:
        return {"discard": "unmodelled"}
    except sim.SimError as exc:
        return {"failures": [{"sig": "unexecutable-blueprint", "detail": str(exc)}], "sample": {"program": text}}
    uniq = {}
    for f in fails:
        uniq.setdefault(f["sig"], f)
    classes = {shape, "optimize" if case.get("optimize", True) else "no-optimize"}
    if both_seen:
        classes.add("both-active-visited")
    return {"failures": list(uniq.values()), "nontrivial": both_seen and hold_after_both and not fails,
            "classes": sorted(classes), "counters": {"excluded_by:" + k: n for k, n in excluded.items()}, "sample": {"program": text, "history": case["hist"][:10], "model_trace": trace[:8]}}
