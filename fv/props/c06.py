"""C06 - entities are driven by exactly the condition the program assigns."""

from __future__ import annotations

from hypothesis import strategies as st

from .. import gen, geom, known, lang, obs, sim
from ..alu import Unmodelled
from . import common

ID = "C06"
LEVEL = "exploration"
RULE = ("Hypothesis-generated programs placing 1-5 circuit-controllable entities (lamp, inserters, belt, train stop, assembler; "
        "pump / power switch when the open finding is not steered around) and 0-2 chests/tanks read through .output, at distinct "
        "constant tiles; e.enable = inlinable `x CMP c`, any()/all() of an entity output, a selection of it, a plain signal, an "
        "arithmetic result, a non-inlinable comparison, a named comparison, or a constant; x input valuations x generated "
        "chest/tank contents. Oracle: the entity found at the user's tile must have circuit_enabled and a circuit condition whose "
        "value on the summed red+green networks at the entity equals (reference expr > 0). Constant enables are not judged. "
        "Non-trivial: some valuation makes a judged condition true and another makes it false. Distinct by (program, valuations).")
ASSUMPTIONS = ["an entity reads the sum of the red and green networks at its connector",
               "constant enables (e.enable = 1) are left out of the verdict"]


def budget(tier):
    return {"examples": 3200 if tier == "quick" else 24000, "wall_s": 110 if tier == "quick" else 900}


@st.composite
def strategy_(draw, tier):
    if draw(st.integers(0, 7)) == 0:
        # "balanced loader": every chest enters the total and its own inserter's bundle
        prog = draw(gen.balanced_program())
        dom = {s.name: gen.ITEMS for s in prog.stmts if isinstance(s, lang.Decl) and s.kind == "Entity" and s.name.startswith("chest")}
    else:
        prog, dom = draw(gen.entity_program(steer=known.active("shared-network-leak"),
                                            avoid_nocond=False))
    names = list(lang.input_decls(prog))
    n = 4 if tier == "quick" else 8
    vals = draw(gen.valuations(names, n))
    for v in vals:  # bias toward the small constants used in conditions
        for k in v:
            if draw(st.booleans()):
                v[k] = draw(st.integers(-14, 14))
    if any(isinstance(s, lang.Decl) and s.name == "total" for s in prog.stmts) and dom and all(k.startswith("chest") for k in dom):
        # balanced loader: the chests hold the same one or two items in different amounts, so that
        # "below the average" is true for some chests and false for others
        items = draw(st.lists(st.sampled_from(gen.ITEMS), min_size=1, max_size=2, unique=True))
        conts = [{var: {it: draw(st.sampled_from([1, 5, 10, 11, 50, 100, 101, 199, 200, 1000]))
                        for it in items if draw(st.integers(0, 3)) != 0} for var in dom} for _ in range(n)]
    else:
        conts = draw(gen.contents_valuations(dom, n))
    return {"prog": prog, "opts": {}, "vals": vals, "contents": conts, "optimize": draw(st.integers(0, 3)) != 0,
            "sched": {"seed": draw(st.integers(0, 3))}}


def strategy(tier):
    return strategy_(tier)


def find_user_entity(circ, pe):
    hits = []
    for e in circ.entities.values():
        if e.name != pe.proto:
            continue
        tl = geom.top_left_tile(e.name, e.pos, e.direction)
        if abs(tl[0] - pe.x) < 1e-6 and abs(tl[1] - pe.y) < 1e-6:
            hits.append(e)
    return hits


def run_case(case):
    prog = case["prog"]
    text, res = common.compile_case(case)
    if not res.accepted:
        return common.reject_result(res)
    try:
        circ = sim.load(res.bp)
    except sim.SimError as exc:
        return {"failures": [{"sig": "unexecutable-blueprint", "detail": str(exc)}], "sample": {"program": text}}
    inputs_map = obs.input_combinators(circ)
    fails, seen = [], {}
    classes = set()
    sample = []
    for val, cont in zip(case["vals"], case["contents"]):
        try:
            it = lang.Interp(prog, inputs=val, contents=cont)
            it.run()
        except Unmodelled:
            return {"discard": "unmodelled"}
        circ.reset()
        missing = obs.apply_inputs(circ, prog, val, inputs_map)
        if [m for m in missing if m in lang.referenced_names(prog)]:
            return {"discard": "input-unlabelled"}
        located = {}
        for pe in it.entities:
            hits = find_user_entity(circ, pe)
            if len(hits) != 1:
                fails.append({"sig": "entity-not-found:" + pe.proto, "detail": {"var": pe.var, "tile": [pe.x, pe.y], "found": len(hits)}})
                continue
            located[pe.var] = hits[0]
            if pe.var in cont:
                circ.set_contents(hits[0].num, cont[pe.var])
        try:
            if circ.settle() is None:
                fails.append({"sig": "no-settle", "detail": {"valuation": val}})
                continue
            for pe in it.entities:
                if pe.enable is None or pe.var not in located:
                    continue
                if pe.enable_const:
                    classes.add("constant-enable")
                    continue
                e = located[pe.var]
                has, enabled, value = circ.condition_state(e.num)
                shape = ",".join(sorted(lang.ops_in(next(s.e for s in prog.stmts if isinstance(s, lang.Assign) and s.target == pe.var))))[:30]
                if not has or (not enabled and geom.has_enable_flag(pe.proto)):
                    fails.append({"sig": f"no-condition:{pe.proto}", "detail": {"var": pe.var, "control_behavior": e.cb}})
                    continue
                seen.setdefault(pe.var, set()).add(pe.enable)
                if value != pe.enable:
                    fails.append({"sig": f"condition-value:{shape or 'signal'}", "detail": {
                        "var": pe.var, "proto": pe.proto, "want": pe.enable, "got": value, "condition": e.cb.get("circuit_condition"),
                        "network": circ.read_input(e.num), "valuation": val, "contents": cont}})
            if not sample:
                sample = [{"valuation": val, "contents": cont, "enables": {pe.var: pe.enable for pe in it.entities if pe.enable is not None}}]
        except Unmodelled:
            return {"discard": "unmodelled"}
        except sim.SimError as exc:
            return {"failures": [{"sig": "unexecutable-blueprint", "detail": str(exc)}], "sample": {"program": text}}
    uniq = {}
    for f in fails:
        uniq.setdefault(f["sig"], f)
    classes |= {"optimize" if case.get("optimize", True) else "no-optimize"} | set(lang.program_ops(prog))
    return {"failures": list(uniq.values()), "nontrivial": any(len(s) > 1 for s in seen.values()) and not fails,
            "classes": sorted(classes), "sample": {"program": text, "observed": sample}}
