"""C07 - the printed blueprint string carries the whole circuit."""

from __future__ import annotations

import json
import os
import tempfile

from hypothesis import strategies as st

from .. import canon, drive, gen, known, lang, obs, sim
from ..alu import Unmodelled
from . import common, geo

ID = "C07"
LEVEL = "exploration"
RULE = ("Hypothesis-generated programs (scalar DAGs, bundles, entity programs, gated cells, folded multi-row conditions over same-named operands) x a generated invocation of the REAL "
        "entry points as subprocesses: {source file, -i string} x {python -m dsl_compiler, the console-script launcher "
        "dsl_compiler.cli:main, python compile.py} x {blueprint string, --json} x {stdout, -o file} x {--no-optimize, "
        "--power-poles T, --name}. Oracle: (1) exit status 0 and the text decodes (base64+zlib+JSON or JSON) to a blueprint "
        "stamped 2.0.x; (2) completeness against the LayoutPlan captured from an in-process compilation of the same source with "
        "the same options: same multiset of configured entities - operation, both operands, network selections, output signal, "
        "conditions, outputs, constant sections, circuit conditions - via the canonical form, and independently every planned "
        "combinator's operands/operation/output and every planned wire are looked up in the decoded JSON; (3) the decoded text, "
        "executed in the circuit model on generated valuations, gives the reference interpreter's values; (4) the string form "
        "and the --json form of an in-process compilation decode to the same circuit (identical dictionaries, or identical canonical forms when placement differed). Non-trivial: >= 1 configured "
        "arithmetic/decider combinator in the decoded text. Distinct by (program text, invocation).")
ASSUMPTIONS = ["compile.py has no -i option; that combination is not generated",
               "layout differs between processes, so CLI output and in-process plan are compared through the position-free canonical form"]


def budget(tier):
    return {"examples": 176 if tier == "quick" else 4000, "wall_s": 140 if tier == "quick" else 900}


@st.composite
def strategy_(draw, tier):
    steer = known.active("shared-network-leak")
    kind = draw(st.sampled_from(["scalar", "scalar", "bundle", "entity", "memory", "rows"]))
    if kind == "rows":
        prog = draw(gen.same_name_rows_program())
    elif kind == "scalar":
        prog = draw(gen.scalar_program(early_virtual=True, linear=steer, max_stmts=5))
    elif kind == "bundle":
        prog = draw(gen.bundle_program(steer=steer, max_stmts=4))
    elif kind == "entity":
        prog, _ = draw(gen.entity_program(steer=steer, max_entities=3))
    else:
        prog, _ = draw(gen.gated_memory_program(steer=steer))
    entry = draw(st.sampled_from(["module", "launcher", "compile_py"]))
    by_file = True if entry == "compile_py" else draw(st.booleans())
    names = list(lang.input_decls(prog))
    return {"kind": kind, "prog": prog, "entry": entry, "by_file": by_file, "json": draw(st.booleans()), "to_file": draw(st.booleans()),
            "no_optimize": draw(st.integers(0, 3)) == 0, "poles": draw(st.sampled_from([None, None, None, "small", "medium", "big", "substation", ""])),
            "name": draw(st.sampled_from([None, None, "My Circuit"])), "vals": draw(gen.valuations(names, 3))}


def strategy(tier):
    return strategy_(tier)


def variants(case):
    from .. import shrink

    for k, v in (("poles", None), ("name", None), ("no_optimize", False), ("to_file", False)):
        if case.get(k):
            yield {**case, k: v}
    if len(case["vals"]) > 1:
        yield {**case, "vals": case["vals"][:1]}
    for p in shrink.program_variants(case["prog"]):
        yield {**case, "prog": p}


CMP_NORM = {"==": "=", "=": "=", "!=": "≠", "≠": "≠", "<=": "≤", "≤": "≤", ">=": "≥", "≥": "≥", "<": "<", ">": ">"}
OP_NORM = {"**": "^", "&": "AND", "|": "OR"}


def _nets(w):
    if w is None:
        return None
    return {"red": "red" in w, "green": "green" in w}


def _json_nets(sel):
    sel = sel or {}
    return {"red": sel.get("red", True), "green": sel.get("green", True)}


def plan_vs_json(plan, bp):
    """Independent reading of the plan: every planned combinator's essentials and every planned wire are in the JSON."""
    problems = []
    ids = sorted(plan.entity_placements.keys())
    ents = geo.entities(bp)
    if len(ids) != len(ents):
        return [("entity-count", len(ids), len(ents))]
    num = {pid: i + 1 for i, pid in enumerate(ids)}
    for pid in ids:
        pl = plan.entity_placements[pid]
        e = ents[num[pid] - 1]
        if e["name"] != pl.entity_type:
            problems.append(("prototype", pid, pl.entity_type, e["name"]))
            continue
        if pl.position is not None and (abs(e["position"]["x"] - pl.position[0]) > 1e-6 or abs(e["position"]["y"] - pl.position[1]) > 1e-6):
            problems.append(("position", pid, pl.position, e["position"]))
        pr = pl.properties
        cb = e.get("control_behavior") or {}
        if pl.entity_type == "arithmetic-combinator":
            c = cb.get("arithmetic_conditions")
            if c is None:
                problems.append(("no-arithmetic-conditions", pid))
                continue
            op = OP_NORM.get(pr.get("operation", "+"), pr.get("operation", "+"))
            if c.get("operation", "*") != op:
                problems.append(("operation", pid, op, c.get("operation", "*")))
            for side, key_sig, key_const, wkey in (("left", "first_signal", "first_constant", "first_signal_networks"),
                                                    ("right", "second_signal", "second_constant", "second_signal_networks")):
                v = pr.get(f"{side}_operand")
                if isinstance(v, int):
                    if c.get(key_const, 0) != v:
                        problems.append((f"{side}-constant", pid, v, c.get(key_const)))
                elif isinstance(v, str):
                    if (c.get(key_sig) or {}).get("name") != v:
                        problems.append((f"{side}-signal", pid, v, c.get(key_sig)))
                    want = _nets(pr.get(f"{side}_operand_wires"))
                    if want is not None and _json_nets(c.get(wkey)) != want:
                        problems.append((f"{side}-networks", pid, want, c.get(wkey)))
            out = pr.get("output_signal")
            if isinstance(out, str) and (c.get("output_signal") or {}).get("name") not in (out, "signal-0" if out == "signal-each" else out):
                problems.append(("output-signal", pid, out, c.get("output_signal")))
        elif pl.entity_type == "decider-combinator":
            c = cb.get("decider_conditions")
            if c is None:
                problems.append(("no-decider-conditions", pid))
                continue
            rows = pr.get("conditions") or pr.get("multi_conditions")
            jrows = c.get("conditions") or []
            if rows:
                if len(rows) != len(jrows):
                    problems.append(("condition-rows", pid, len(rows), len(jrows)))
                else:
                    for i, (r, j) in enumerate(zip(rows, jrows)):
                        if not isinstance(r, dict):
                            continue
                        for key, wkey, jw in (("first_signal", "first_signal_wires", "first_signal_networks"),
                                              ("second_signal", "second_signal_wires", "second_signal_networks")):
                            v = r.get(key)
                            if isinstance(v, str):
                                if (j.get(key) or {}).get("name") != v:
                                    problems.append(("row-" + key, pid, i, v, j.get(key)))
                                want = _nets(r.get(wkey))
                                if want is not None and (want["red"] or want["green"]) and _json_nets(j.get(jw)) != want:
                                    problems.append(("row-" + key + "-networks", pid, i, want, j.get(jw)))
                        if isinstance(r.get("first_signal"), str):
                            if not r.get("second_signal") and isinstance(r.get("second_constant"), int) and j.get("constant", 0) != r["second_constant"]:
                                problems.append(("row-constant", pid, i, r["second_constant"], j.get("constant", 0)))
                            wc, jc = r.get("comparator", ">"), j.get("comparator", "<")
                            if CMP_NORM.get(wc, wc) != CMP_NORM.get(jc, jc):
                                problems.append(("row-comparator", pid, i, wc, jc))
                        if i > 0 and r.get("compare_type", "or") != j.get("compare_type", "or"):
                            problems.append(("row-compare-type", pid, i, r.get("compare_type", "or"), j.get("compare_type", "or")))
            else:
                if len(jrows) != 1:
                    problems.append(("condition-rows", pid, 1, len(jrows)))
                else:
                    want_cmp = CMP_NORM.get(pr.get("operation", "="), pr.get("operation"))
                    if CMP_NORM.get(jrows[0].get("comparator", "<"), jrows[0].get("comparator")) not in (want_cmp,) and not isinstance(pr.get("left_operand"), int):
                        problems.append(("comparator", pid, want_cmp, jrows[0].get("comparator", "<")))
                    if not isinstance(pr.get("left_operand"), int):
                        for side, key, jw in (("left", "first_signal", "first_signal_networks"), ("right", "second_signal", "second_signal_networks")):
                            v = pr.get(f"{side}_operand")
                            if isinstance(v, str):
                                if (jrows[0].get(key) or {}).get("name") != v:
                                    problems.append((f"{side}-signal", pid, v, jrows[0].get(key)))
                                want = _nets(pr.get(f"{side}_operand_wires"))
                                if want is not None and (want["red"] or want["green"]) and _json_nets(jrows[0].get(jw)) != want:
                                    problems.append((f"{side}-networks", pid, want, jrows[0].get(jw)))
                            elif side == "right" and isinstance(v, int) and jrows[0].get("constant", 0) != v:
                                problems.append(("right-constant", pid, v, jrows[0].get("constant", 0)))
            outs = c.get("outputs") or []
            if len(outs) != 1:
                problems.append(("outputs", pid, len(outs)))
            else:
                o = outs[0]
                if isinstance(pr.get("output_signal"), str) and (o.get("signal") or {}).get("name") != pr["output_signal"]:
                    problems.append(("output-signal", pid, pr["output_signal"], o.get("signal")))
                if bool(pr.get("copy_count_from_input", False)) != bool(o.get("copy_count_from_input", True)):
                    problems.append(("copy-count", pid, pr.get("copy_count_from_input"), o.get("copy_count_from_input", True)))
                if not pr.get("copy_count_from_input", False) and isinstance(pr.get("output_value", 1), int) and o.get("constant", 1) != pr.get("output_value", 1):
                    problems.append(("output-constant", pid, pr.get("output_value", 1), o.get("constant", 1)))
        elif pl.entity_type == "constant-combinator":
            want = {}
            if pr.get("signals"):
                want = {k: v for k, v in pr["signals"].items()}
            elif pr.get("signal_name"):
                want = {pr["signal_name"]: pr.get("value", 0)}
            got = {}
            for sec in (cb.get("sections") or {}).get("sections") or []:
                for f in sec.get("filters") or []:
                    got[f.get("name")] = f.get("count", 0)
            if want and {k: v for k, v in want.items()} != got:
                problems.append(("constant-sections", pid, want, got))
    wire_set = set()
    for e1, c1, e2, c2 in geo.wires(bp):
        wire_set.add((e1, c1, e2, c2))
        wire_set.add((e2, c2, e1, c1))
    comb = {"arithmetic-combinator", "decider-combinator"}
    for wc in plan.wire_connections:
        if wc.source_entity_id not in num or wc.sink_entity_id not in num:
            continue
        s, k = num[wc.source_entity_id], num[wc.sink_entity_id]
        base = 1 if wc.wire_color == "red" else 2
        s_is_out = plan.entity_placements[wc.source_entity_id].entity_type in comb and (wc.source_side or "output") == "output"
        k_is_out = plan.entity_placements[wc.sink_entity_id].entity_type in comb and (wc.sink_side or "input") == "output"
        cs = base + (2 if s_is_out else 0)
        ck = base + (2 if k_is_out else 0)
        if (s, cs, k, ck) not in wire_set:
            problems.append(("wire-missing", wc.source_entity_id, wc.sink_entity_id, wc.wire_color))
    return problems


def run_case(case):
    prog = case["prog"]
    text = prog.text()
    classes = {case["kind"], "entry:" + case["entry"], "json" if case["json"] else "string", "file-out" if case["to_file"] else "stdout",
               "by-file" if case["by_file"] else "-i"}
    poles = case.get("poles")
    fails = []
    with tempfile.TemporaryDirectory(prefix="fv07_") as td:
        args = []
        src = os.path.join(td, "prog_under_test.facto")
        if case["by_file"]:
            with open(src, "w") as fh:
                fh.write(text)
            args.append(src)
        else:
            args += ["-i", text]
        out = os.path.join(td, "sub", "out.txt")
        if case["to_file"]:
            args += ["-o", out]
        if case["json"]:
            args.append("--json")
        if case["no_optimize"]:
            args.append("--no-optimize")
            classes.add("--no-optimize")
        if poles is not None:
            args += ["--power-poles"] + ([poles] if poles else [])
            classes.add("--power-poles")
        if case.get("name"):
            args += ["--name", case["name"]]
        # in-process reference compile first: is the program accepted at all?
        pole_arg = (poles or "medium") if poles is not None else None
        ref = drive.compile_source(text, optimize=not case["no_optimize"], poles=pole_arg, use_json=True, capture_plan=True,
                                   source_name=src if case["by_file"] else "<string>", name=case.get("name"))
        if not ref.accepted:
            return {"discard": "rejected" if ref.status == "rejected" else "crashed", "message": ref.message}
        if poles == "" and case["by_file"] is False:
            pass
        code, so, se = drive.run_cli(args, entry=case["entry"], cwd=td)
        if code != 0:
            return {"failures": [{"sig": "cli-nonzero-exit", "detail": {"args": args[-6:], "stderr": se[-400:]}}], "sample": {"program": text[:500]}}
        emitted = so
        if case["to_file"]:
            if not os.path.exists(out):
                return {"failures": [{"sig": "output-file-missing", "detail": {"args": args[-6:], "stdout": so[:200]}}], "sample": {"program": text[:500]}}
            emitted = open(out).read()
            if drive.looks_like_blueprint(so):
                fails.append({"sig": "blueprint-on-stdout-despite--o", "detail": {}})
    # (1) decodes, stamped 2.0
    try:
        body = emitted.strip()
        bp = json.loads(body) if case["json"] else drive.decode_blueprint_string(body)
    except Exception as exc:  # noqa: BLE001
        return {"failures": [{"sig": "undecodable:" + ("json" if case["json"] else "string"), "detail": {"error": str(exc), "head": emitted[:120]}}],
                "sample": {"program": text[:500]}}
    ver = (bp.get("blueprint") or {}).get("version")
    if not isinstance(ver, int) or (ver >> 48) != 2 or ((ver >> 32) & 0xFFFF) != 0:
        fails.append({"sig": "version-not-2.0", "detail": {"version": ver}})
    if case.get("name") and (bp.get("blueprint") or {}).get("label") != f"{case['name']} Blueprint":
        fails.append({"sig": "name-not-applied", "detail": {"label": (bp.get("blueprint") or {}).get("label")}})
    # (2) completeness vs the plan
    pv = plan_vs_json(ref.plan, ref.bp) if ref.plan is not None else []
    for kind in sorted({p[0] for p in pv}):
        fails.append({"sig": "plan-vs-json:" + kind, "detail": {"examples": [str(p)[:200] for p in pv if p[0] == kind][:3]}})
    ca, cb = canon.canonical(ref.bp), canon.canonical(bp)
    if ca != cb:
        fails.append({"sig": "cli-output-differs-from-planned-circuit", "detail": {"summary": canon.diff(ca, cb), "configs": canon.describe_config_diff(ref.bp, bp)}})
    # (4) string form == json form (same process, same schedule)
    rs = drive.compile_source(text, optimize=not case["no_optimize"], poles=pole_arg, use_json=False, name=case.get("name"),
                              source_name=src if case["by_file"] else "<string>")
    if rs.accepted and rs.bp != ref.bp and canon.canonical(rs.bp) != ca:
        # two compilations may differ in placement under machine load; the two forms must still be the same circuit
        fails.append({"sig": "string-form-differs-from-json-form", "detail": {"summary": canon.diff(ca, canon.canonical(rs.bp))}})
    # (3) behaviour of the decoded text
    ncomb = 0
    try:
        circ = sim.load(bp)
        ncomb = circ.n_combinators()
        if case["kind"] in ("scalar", "bundle"):
            inputs_map = obs.input_combinators(circ)
            outputs = lang.unconsumed_outputs(prog)
            for val in case["vals"]:
                env = lang.Interp(prog, inputs=val).run()
                ticks, missing = common.run_valuation(prog, circ, val, inputs_map)
                if missing:
                    break
                if ticks is None:
                    fails.append({"sig": "behaviour:no-settle", "detail": {"valuation": val}})
                    break
                f, _n, _u = common.compare_named_outputs(prog, circ, env, outputs, label=str(val))
                for x in f:
                    x["sig"] = "behaviour:" + x["sig"]
                fails += f[:1]
        configured = [e for e in circ.entities.values() if e.kind in ("arith", "decider")]
        if any(not e.cb for e in configured):
            fails.append({"sig": "combinator-without-control-behavior", "detail": {"n": sum(1 for e in configured if not e.cb)}})
    except Unmodelled:
        pass
    except sim.SimError as exc:
        fails.append({"sig": "unexecutable-blueprint", "detail": str(exc)})
    uniq = {}
    for f in fails:
        uniq.setdefault(f["sig"], f)
    return {"failures": list(uniq.values()), "nontrivial": ncomb >= 1 and not fails, "classes": sorted(classes),
            "sample": {"program": text[:500], "invocation": [a if len(a) < 60 else a[:57] + "..." for a in args][-8:], "entry": case["entry"],
                       "decoded_entities": len(geo.entities(bp))}}
