"""C08 - every emitted blueprint can be pasted: no overlaps, all wires reach, relays do not join networks."""

from __future__ import annotations

from hypothesis import strategies as st

from .. import drive, gen, known, lang, sim
from . import geo

ID = "C08"
LEVEL = "exploration"
RULE = ("Hypothesis-generated programs (user entities 8-60 tiles apart sharing sources so relays are needed, high fan-out, gated "
        "cells and latches whose wires bypass the router, scalar blocks) x pole option {none, small, medium, big, substation} x "
        "optimise on/off x an owned layout schedule: CP-SAT worker count, random seed and deterministic time budget "
        "{0.001..0.5}, plus injected faults (chosen relaxation strategies 'find nothing', all of them fail -> fallback grid, "
        "relay routing reported failed n times -> whole-layout retry, solver left untouched). Oracle = validity predicate on the "
        "emitted JSON with prototype data from draftsman: pairwise disjoint collision boxes (rotated), every wire joins existing "
        "entities at connectors they have with one colour, centre distance <= min(wire reach); relay rule: the partition of "
        "non-relay connectors induced by the emitted wires (relay poles contracted) equals the partition induced by the "
        "planner's own circuit edges + preserved memory wires. Non-trivial: >= 1 relay pole emitted or a non-default layout path "
        "(fault injected / retry / fallback). Distinct by (program, options, schedule).")
ASSUMPTIONS = ["wire length is measured between entity positions (centres), as the game does",
               "machine load is replaced by controlled solver parameters and injected outcomes; real OS scheduling is not enumerated",
               "the relay rule uses the planner's own edge list as the intent"]


def budget(tier):
    return {"examples": 1200 if tier == "quick" else 8000, "wall_s": 120 if tier == "quick" else 900}


@st.composite
def strategy_(draw, tier):
    poles = draw(st.sampled_from(gen.POLE_OPTIONS))
    # a pole grid over a 300x300 tile bounding box is thousands of fixed entities: with poles the spread stays <= 20 tiles per cell
    span = draw(st.sampled_from([8, 12, 20])) if poles else None
    prog = draw(gen.spread_program(steer=known.active("shared-network-leak"), span=span))
    sched = draw(gen.schedule())
    if tier == "quick":
        sched.pop("untouched", None)  # production solver defaults (all cores, wall-clock limits) only in the thorough tier
    return {"prog": prog, "opts": {}, "poles": poles, "optimize": draw(st.integers(0, 3)) != 0, "sched": sched}


def strategy(tier):
    return strategy_(tier)


def variants(case):
    from .. import shrink

    if case.get("poles"):
        yield {**case, "poles": None}
    s = case.get("sched") or {}
    if s.get("fail_strategies") or s.get("fail_routing") or s.get("untouched"):
        yield {**case, "sched": {"seed": s.get("seed", 0)}}
    for p in shrink.program_variants(case["prog"]):
        yield {**case, "prog": p}


_captured = {}


def _install_capture():
    if _captured.get("installed"):
        return
    _captured["installed"] = True
    try:
        from dsl_compiler.src.layout import connection_planner as cpl

        real = cpl.ConnectionPlanner.plan_connections

        def wrapped(self, *a, **k):
            _captured["planner"] = self
            return real(self, *a, **k)

        cpl.ConnectionPlanner.plan_connections = wrapped
    except Exception:  # noqa: BLE001
        _captured["unavailable"] = True


def relay_rule(bp, plan, planner):
    """Partition equality; returns None if the intent cannot be reconstructed (refactored internals)."""
    try:
        ids = sorted(plan.entity_placements.keys())
        ents = geo.entities(bp)
        if len(ids) != len(ents):
            return None
        num = {pid: i + 1 for i, pid in enumerate(ids)}
        for pid in ids:
            if plan.entity_placements[pid].entity_type != ents[num[pid] - 1]["name"]:
                return None
        relay = {num[pid] for pid in ids if getattr(plan.entity_placements[pid], "role", None) == "wire_relay"
                 or plan.entity_placements[pid].properties.get("is_power_pole")}
        comb = {num[pid] for pid in ids if plan.entity_placements[pid].entity_type in ("arithmetic-combinator", "decider-combinator")}

        def uf():
            parent = {}

            def find(x):
                parent.setdefault(x, x)
                while parent[x] != x:
                    parent[x] = parent[parent[x]]
                    x = parent[x]
                return x

            def union(a, b):
                parent[find(a)] = find(b)

            return parent, find, union

        # actual
        pa, fa, ua = uf()
        for e1, c1, e2, c2 in geo.wires(bp):
            if c1 >= 5:
                continue
            col = "r" if c1 in (1, 3) else "g"
            s1 = "out" if c1 in (3, 4) else "in"
            s2 = "out" if c2 in (3, 4) else "in"
            ua((e1, s1, col), (e2, s2, col))
        # intended
        pi, fi, ui = uf()
        for edge in planner._circuit_edges:
            if not edge.source_entity_id or edge.source_entity_id not in num or edge.sink_entity_id not in num:
                continue
            key = (edge.source_entity_id, edge.sink_entity_id, edge.resolved_signal_name)
            col = planner._edge_color_map.get(key)
            if col is None:
                col = planner._edge_wire_colors.get(key, "red")
            c = "r" if col == "red" else "g"
            s, k = num[edge.source_entity_id], num[edge.sink_entity_id]
            ui((s, "out" if s in comb else "in", c), (k, "in", c))
        for wc in plan.wire_connections:
            if wc.source_entity_id in num and wc.sink_entity_id in num and (getattr(wc, "source_side", None) or getattr(wc, "sink_side", None)):
                s, k = num[wc.source_entity_id], num[wc.sink_entity_id]
                if s in relay or k in relay:
                    continue
                c = "r" if wc.wire_color == "red" else "g"
                ss = "out" if (wc.source_side == "output") else "in"
                ks = "out" if (wc.sink_side == "output") else "in"
                ui((s, ss, c), (k, ks, c))

        def classes(parent, find):
            groups = {}
            for n in list(parent):
                if n[0] in relay:
                    continue
                groups.setdefault(find(n), set()).add(n)
            return {frozenset(g) for g in groups.values() if len(g) > 1}

        act, want = classes(pa, fa), classes(pi, fi)
        if act == want:
            return []
        joined = [sorted(g) for g in act if not any(g <= w for w in want)]
        split = [sorted(g) for g in want if not any(g <= a for a in act)]
        return [{"joined_by_emitted_wires": joined[:3], "intended_but_not_connected": split[:3]}]
    except Exception:  # noqa: BLE001
        return None


def run_case(case):
    _install_capture()
    prog = case["prog"]
    text = prog.text()
    sched = drive.Schedule.from_json(case.get("sched"))
    res = drive.compile_source(text, optimize=case.get("optimize", True), poles=case.get("poles"), schedule=sched, capture_plan=True)
    if not res.accepted:
        return {"discard": "rejected" if res.status == "rejected" else "crashed", "message": res.message,
                "classes": ["crash:" + res.exc_type] if res.status == "crashed" else []}
    stats = drive.last_stats()
    fails = []
    ov = geo.overlaps(res.bp)
    if ov:
        fails.append({"sig": "overlap:%s+%s" % tuple(sorted((ov[0][1], ov[0][4]))), "detail": {"pairs": ov[:3]}})
    wp = geo.wire_problems(res.bp)
    excluded = {}
    if known.active("memory-internal-wire-span"):
        # open finding F-memwire-span: the explicit wires between the gates of one memory cell / latch are added
        # outside the routed edge set and never span-checked. Identified by call site: both ends are parts of the
        # same memory module ('mem:<id> (...)' descriptions); any other over-long wire is still reported.
        by_num = {e["entity_number"]: e for e in geo.entities(res.bp)}

        def mem_id(n):
            d = by_num[n].get("player_description") or ""
            return d.split("mem:", 1)[1].split(" ", 1)[0] if "mem:" in d else None

        keep = []
        for w in wp:
            if w[0] == "too-long" and mem_id(w[1][0]) and mem_id(w[1][0]) == mem_id(w[1][2]):
                excluded["F-memwire-span"] = excluded.get("F-memwire-span", 0) + 1
            else:
                keep.append(w)
        wp = keep
    if known.active("small-pole-circuit-reach"):
        # open finding F-small-pole-reach: the compiler's pole table gives small poles a circuit reach of 9
        # (game data: 7.5), pinned by test_power_planner.py. Call site: a circuit wire of length <= 9 with a
        # small-electric-pole end.
        keep = []
        for w in wp:
            if w[0] == "too-long" and w[1][1] < 5 and "small-electric-pole" in (w[2], w[3]) and w[4] <= 9.0 + 1e-9:
                excluded["F-small-pole-reach"] = excluded.get("F-small-pole-reach", 0) + 1
            else:
                keep.append(w)
        wp = keep
    for kind in sorted({w[0] for w in wp}):
        ex = [w for w in wp if w[0] == kind]
        tag = kind
        if kind == "too-long":
            copper = ex[0][1][1] >= 5
            tag = "too-long:copper" if copper else "too-long:circuit"
        fails.append({"sig": "wire:" + tag, "detail": {"examples": ex[:3], "count": len(ex)}})
    rr = None
    if res.plan is not None and _captured.get("planner") is not None:
        rr = relay_rule(res.bp, res.plan, _captured["planner"])
        if rr:
            fails.append({"sig": "relay:partition-differs", "detail": rr[0]})
    n_relays = 0
    if res.plan is not None:
        n_relays = sum(1 for p in res.plan.entity_placements.values() if getattr(p, "role", None) == "wire_relay")
    classes = {"poles:" + str(case.get("poles")), "relays" if n_relays else "no-relays", "optimize" if case.get("optimize", True) else "no-optimize"}
    for k in ("forced_strategy_fail", "forced_routing_fail", "fallback_grid", "real_routing_fail"):
        if stats.get(k):
            classes.add(k)
    if rr is None:
        classes.add("relay-rule-unavailable")
    if (case.get("sched") or {}).get("untouched"):
        classes.add("solver-untouched")
    nondefault = any(stats.get(k) for k in ("forced_strategy_fail", "forced_routing_fail", "fallback_grid", "real_routing_fail"))
    return {"failures": fails, "nontrivial": (n_relays > 0 or nondefault) and not fails, "classes": sorted(classes),
            "counters": {"excluded_by:" + k: v for k, v in excluded.items()},
            "sample": {"program": text[:900], "poles": case.get("poles"), "schedule": case.get("sched"),
                       "entities": len(geo.entities(res.bp)), "relays": n_relays, "layout_stats": stats}}


assert lang and sim
