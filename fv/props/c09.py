"""C09 - user-placed entities appear once, where and how the program says."""

from __future__ import annotations

from hypothesis import strategies as st

from .. import drive, gen, known, lang
from ..lang import Assign, Bin, Call, Decl, For, Func, ListIter, Num, Place, Program, Range, Ref, Return, SigLit
from . import geo

ID = "C09"
LEVEL = "exploration"
RULE = ("Hypothesis-generated programs placing entities at compile-time-constant coordinates given as literals, int variables, "
        "loop iterators and arithmetic on them (negative coordinates, multi-tile prototypes, static property dictionaries with a "
        "vetted JSON mapping: station, direction, lamp colour flags), inside loops (nested) and functions called several times, "
        "wired and unwired, non-overlapping by construction; x pole option x layout schedule / injected faults; the thorough tier "
        "adds 501-1200 entity programs (solver decomposition path). Oracle: the reference interpreter's multiset of (prototype, "
        "top-left tile, properties) equals the multiset extracted from the JSON for all non-combinator, non-pole entities, each "
        "exactly once. Non-trivial: >= 3 user entities and (a loop or function placed some of them, or poles/faults were "
        "requested). Distinct by (program, options, schedule).")
ASSUMPTIONS = ["users place no electric poles and no combinators (those kinds are attributed to the compiler)"]


def budget(tier):
    return {"examples": 1200 if tier == "quick" else 8000, "wall_s": 130 if tier == "quick" else 900}


PROTOS = [("small-lamp", 1), ("inserter", 1), ("transport-belt", 1), ("steel-chest", 1), ("train-stop", 2),
          ("assembling-machine-1", 3), ("storage-tank", 3), ("pump", 2), ("power-switch", 2)]


@st.composite
def placement_program(draw, tier):
    stmts = [Decl("Signal", "sig", SigLit("signal-A", Num(draw(st.integers(0, 9)))))]
    ints = {}
    for i in range(draw(st.integers(0, 2))):
        v = draw(st.integers(-8, 8))
        stmts.append(Decl("int", f"n{i + 1}", Num(v)))
        ints[f"n{i + 1}"] = v
    used_loop = used_func = False
    big = draw(st.integers(0, 15 if tier == "quick" else 9)) == 0  # > 500 entities: the solver's decomposition path
    row = 0
    big_done = False

    def props_for(proto):
        if proto == "train-stop" and draw(st.booleans()):
            return (("station", draw(st.sampled_from(["Iron Pickup", "Depot"]))),)
        if proto in ("inserter", "transport-belt") and draw(st.booleans()):
            return (("direction", Num(draw(st.sampled_from([4, 8, 12])))),)
        if proto == "small-lamp" and draw(st.integers(0, 2)) == 0:
            return (("use_colors", Num(1)), ("always_on", Num(1)), ("color_mode", Num(1)))
        return ()

    n_blocks = draw(st.integers(2 if big else 1, 4))
    for b in range(n_blocks):
        kind = draw(st.sampled_from(["single", "single", "loop", "nested", "func"]))
        proto, size = draw(st.sampled_from(PROTOS))
        if big and not big_done:
            kind, proto, size = "loop", "small-lamp", 1
        y0 = row * 8 - (16 if draw(st.booleans()) else 0)
        row += 1
        x0 = draw(st.integers(-20, 10))
        wired = draw(st.booleans()) and proto not in ("steel-chest", "storage-tank")
        if kind == "single":
            xe = Num(x0)
            if ints and draw(st.booleans()):
                n = draw(st.sampled_from(sorted(ints)))
                xe = Bin("+", Ref(n), Num(x0 - ints[n]))
            var = f"e{b}"
            stmts.append(Decl("Entity", var, Place(proto, xe, Num(y0), props_for(proto))))
            if wired:
                stmts.append(Assign(var, "enable", Bin(">", Ref("sig"), Num(b))))
        elif kind == "loop":
            used_loop = True
            cnt = draw(st.integers(0, 6))
            if big and not big_done:
                cnt = draw(st.integers(505, 640))
                big_done = True
                wired = False
            step = draw(st.sampled_from([1, 2, -1]))
            a = draw(st.integers(-3, 3))
            bnd = a + cnt * step
            it = Range(Num(a), Num(bnd), None if step == 1 else Num(step))
            body = [Decl("Entity", "le", Place(proto, Bin("+", Bin("*", Ref(f"i{b}"), Num((size + 1) if step != 2 else size)), Num(x0)), Num(y0), props_for(proto)))]
            if wired:
                body.append(Assign("le", "enable", Bin(">", Ref("sig"), Ref(f"i{b}"))))
            stmts.append(For(f"i{b}", it, tuple(body)))
        elif kind == "nested":
            used_loop = True
            it1 = ListIter(tuple(Num(v) for v in draw(st.lists(st.integers(-2, 3), max_size=3, unique=True))))
            it2 = Range(Num(0), Num(draw(st.integers(0, 3))), None)
            body = [Decl("Entity", "ne", Place(proto, Bin("+", Bin("*", Ref(f"j{b}"), Num(size + 1)), Num(x0)),
                                               Bin("+", Bin("*", Ref(f"i{b}"), Num(size + 1)), Num(y0 * 3)), props_for(proto)))]
            if wired:
                body.append(Assign("ne", "enable", Bin("==", Ref("sig"), Bin("+", Ref(f"i{b}"), Ref(f"j{b}")))))
            stmts.append(For(f"i{b}", it1, (For(f"j{b}", it2, tuple(body)),)))
            row += 3
        else:
            used_func = True
            fname = f"mk{b}"
            fbody = [Decl("Entity", "fe", Place(proto, Ref("px"), Ref("py"), props_for(proto)))]
            if wired:
                fbody.append(Assign("fe", "enable", Bin(">", Ref("s"), Num(1))))
            fbody.append(Return(Ref("fe")))
            stmts.append(Func(fname, (("int", "px"), ("int", "py"), ("Signal", "s")), tuple(fbody)))
            for c in range(draw(st.integers(1, 3))):
                stmts.append(Decl("Entity", f"fc{b}_{c}", Call(fname, (Num(x0 + c * (size + 2)), Num(y0), Ref("sig")))))
    return Program(tuple(stmts)), {"loop": used_loop, "func": used_func, "big": big}


@st.composite
def strategy_(draw, tier):
    prog, info = draw(placement_program(tier))
    return {"prog": prog, "info": info, "opts": {}, "poles": draw(st.sampled_from(gen.POLE_OPTIONS)),
            "optimize": draw(st.integers(0, 3)) != 0, "sched": _sched(draw, tier)}


def _sched(draw, tier):
    s = draw(gen.schedule())
    if tier == "quick":
        s.pop("untouched", None)
    return s


def strategy(tier):
    return strategy_(tier)


def variants(case):
    from .. import shrink

    if case.get("poles"):
        yield {**case, "poles": None}
    s = case.get("sched") or {}
    if len(s) > 1:
        yield {**case, "sched": {"seed": s.get("seed", 0)}}
    for p in shrink.program_variants(case["prog"]):
        yield {**case, "prog": p}


def run_case(case):
    prog = case["prog"]
    try:
        it = lang.Interp(prog, inputs={})
        it.run()
    except lang.RefError:
        return {"discard": "ref-error"}
    want = geo.reference_multiset(it.entities)
    # the reference must itself be overlap-free (generator guarantee); otherwise the case is outside the domain
    from .. import geom

    boxes = [geom.world_box(p, (x + geom.tile_size(p)[0] / 2.0, y + geom.tile_size(p)[1] / 2.0)) for p, x, y, _ in want]
    for i in range(len(boxes)):
        for j in range(i + 1, len(boxes)):
            if geom.boxes_intersect(boxes[i], boxes[j]):
                return {"discard": "overlapping-reference"}
    text = prog.text()
    res = drive.compile_source(text, optimize=case.get("optimize", True), poles=case.get("poles"),
                               schedule=drive.Schedule.from_json(case.get("sched")))
    if not res.accepted:
        return {"discard": "rejected" if res.status == "rejected" else "crashed", "message": res.message,
                "classes": ["crash:" + res.exc_type] if res.status == "crashed" else []}
    got = geo.user_entity_multiset(res.bp)
    fails = []
    if got != want:
        missing = [w for w in want if want.count(w) > got.count(w)]
        extra = [g for g in got if got.count(g) > want.count(g)]
        kind = "missing" if missing and not extra else "extra" if extra and not missing else "moved-or-changed"
        protos = sorted({m[0] for m in (missing + extra)})[:2]
        fails.append({"sig": f"user-entities:{kind}:{','.join(protos)}", "detail": {"missing": missing[:4], "unexpected": extra[:4], "n_want": len(want), "n_got": len(got)}})
    stats = drive.last_stats()
    info = case.get("info", {})
    classes = {"poles:" + str(case.get("poles")), "n:%s" % ("0-2" if len(want) <= 2 else "3-20" if len(want) <= 20 else "21-500" if len(want) <= 500 else "501+")}
    for k in ("loop", "func", "big"):
        if info.get(k):
            classes.add(k)
    for k in ("forced_strategy_fail", "forced_routing_fail", "fallback_grid"):
        if stats.get(k):
            classes.add(k)
    nontrivial = len(want) >= 3 and (info.get("loop") or info.get("func") or case.get("poles") or len(case.get("sched") or {}) > 3) and not fails
    return {"failures": fails, "nontrivial": bool(nontrivial), "classes": sorted(classes),
            "sample": {"program": text[:900], "poles": case.get("poles"), "user_entities": want[:6], "schedule": case.get("sched")}}


assert known
