"""C10 - optimisation never changes what the circuit does."""

from __future__ import annotations

from hypothesis import strategies as st

from .. import gen, known, lang
from . import twin

ID = "C10"
LEVEL = "exploration"
RULE = ("Differential: each generated program is compiled twice, optimisation on and off, and both blueprints are executed in the "
        "circuit model on the same inputs / the same input history. Domains (chosen per case): CSE bait (repeated sub-expressions "
        "differing only in output type or output mode, folded anonymous constants, fan-out), scalar DAGs, bundle programs, entity "
        "programs with chest contents, gated memory cells with histories, latches with histories. Oracle: both accepted => equal "
        "value of every named output and equal entity condition state after every settled step; exactly one build refused => "
        "reported. Non-trivial: both builds accepted, the two blueprints differ structurally and the observations vary across "
        "steps. Distinct by (program, steps).")
ASSUMPTIONS = ["outputs are compared by value on the signal each build advertises for the name (implicit signal names may differ)"]


def budget(tier):
    return {"examples": 1000 if tier == "quick" else 16000, "wall_s": 110 if tier == "quick" else 900}


@st.composite
def strategy_(draw, tier):
    steer = known.active("shared-network-leak")
    kind = draw(st.sampled_from(["cse", "cse", "scalar", "bundle", "entity", "memory", "latch"]))
    case = {"kind": kind, "opts": {}, "sched": {"seed": draw(st.integers(0, 3))}}
    n = 4 if tier == "quick" else 8
    if kind == "cse":
        prog = draw(gen.cse_program())
    elif kind == "scalar":
        prog = draw(gen.scalar_program(early_virtual=True, linear=steer, max_stmts=6))
    elif kind == "bundle":
        prog = draw(gen.bundle_program(steer=steer))
    elif kind == "entity":
        prog, dom = draw(gen.entity_program(steer=steer, avoid_nocond=False))
        case["contents"] = draw(gen.contents_valuations(dom, 1))[0]
    elif kind == "memory":
        prog, ths = draw(gen.gated_memory_program(steer=steer))
        hist = draw(gen.history(list(lang.input_decls(prog)), ths, draw(st.integers(6, 14))))
        case["steps"] = [{}] + [{k: v} for k, v in hist]
    else:
        prog, ths, booleans = draw(gen.latch_program())
        names = [x for x in lang.input_decls(prog) if x != "val"]
        steps = [{}]
        for _ in range(draw(st.integers(6, 14))):
            nm = draw(st.sampled_from(sorted(names)))
            if nm in booleans:
                steps.append({nm: draw(st.sampled_from([0, 1]))})
            else:
                t = draw(st.sampled_from(ths.get(nm) or [0]))
                steps.append({nm: draw(st.sampled_from([t - 1, t, t + 1, -1000, 1000]))})
        case["steps"] = steps
    case["prog"] = prog
    if "steps" not in case:
        names = list(lang.input_decls(prog))
        vals = draw(gen.valuations(names, n))
        for v in vals:
            for k in v:
                if draw(st.booleans()):
                    v[k] = draw(st.integers(-14, 24))
        if kind == "cse" and vals:
            for k in vals[0]:
                vals[0][k] = draw(st.integers(0, 6))  # keeps swapped shifts / powers inside the modelled domain
        case["steps"] = vals
    return case


def strategy(tier):
    return strategy_(tier)


def variants(case):
    from .. import shrink

    if len(case["steps"]) > 1:
        yield {**case, "steps": case["steps"][: len(case["steps"]) // 2 or 1]}
        for i in reversed(range(len(case["steps"]))):
            yield {**case, "steps": case["steps"][:i] + case["steps"][i + 1:]}
    for p in shrink.program_variants(case["prog"]):
        yield {**case, "prog": p}


def run_case(case):
    prog = case["prog"]
    if known.active("three-same-signal-sources") and any(lang.same_type_fanin(p_) for p_ in (prog,)):
        # open finding F-three-same: such a program is wired wrongly, and differently in every layout
        return {"discard": "excluded:F-three-same", "counters": {"excluded_by:F-three-same": 1}}
    if known.active("ir-fold-floor-div") and lang.ir_floor_div_shape(prog):
        # open finding F-irdiv: a signal-typed constant divided by a constant of the other sign is floored by the IR optimiser
        return {"discard": "excluded:F-irdiv", "counters": {"excluded_by:F-irdiv": 1}}
    names = lang.unconsumed_outputs(prog)
    init = {}
    for n, d in lang.input_decls(prog).items():
        init[n] = d.e.val.v if isinstance(d.e, lang.SigLit) else d.e.v
    contents = None
    if case.get("contents"):
        # contents are keyed by entity variable; translate to prototype@position keys
        it = lang.Interp(prog, inputs={}, contents=case["contents"])
        try:
            it.run()
        except Exception:  # noqa: BLE001
            return {"discard": "ref-error"}
        from .. import geom

        contents = {}
        for pe in it.entities:
            if pe.var in case["contents"]:
                w, h = geom.tile_size(pe.proto)
                contents[f"{pe.proto}@{pe.x + w / 2.0},{pe.y + h / 2.0}"] = case["contents"][pe.var]
    r = twin.twin_check(prog, prog, case, names, case["steps"], init=init, contents=contents,
                        optimizeA=True, optimizeB=False, label="A=optimised B=--no-optimize")
    if r.get("discard"):
        return r
    classes = {case["kind"]}
    differ = False
    if "circA" in r:
        na, nb = len(r["circA"].entities), len(r["circB"].entities)
        differ = na != nb or len(r["circA"].wires) != len(r["circB"].wires)
        classes.add("builds-differ" if differ else "builds-same-size")
    fails = r.get("failures", [])
    for f in fails:
        f["sig"] = f"{case['kind']}:{f['sig']}"
    return {"failures": fails, "nontrivial": differ and r.get("varies", False) and not fails, "classes": sorted(classes),
            "sample": {"program": r["sample"]["A"], "steps": case["steps"][:4], "kind": case["kind"]}}
