"""C11 - compile-time arithmetic equals run-time arithmetic."""

from __future__ import annotations

from hypothesis import strategies as st

from .. import gen, known, lang, obs, sim
from ..alu import INT_MAX, INT_MIN, Unmodelled, arith, wrap
from ..lang import Bin, Call, Cond, Decl, For, Func, ListIter, Num, Program, Ref, Return, SigLit, Un
from . import common, twin

ID = "C11"
LEVEL = "exploration"
RULE = ("Hypothesis-generated constant expressions (depth <= 3 over + - * / % ** << >> AND OR XOR and unary minus, operands "
        "boundary-biased over the whole int32 range, literals in bases 2/8/10/16) placed in every folding site: Signal "
        "declaration, int declaration used by a run-time operator, typed-literal value, operand of a run-time operator, comparison "
        "constant, value after ':', function int argument, loop-body arithmetic on the iterator, and operands given as anonymous "
        "typed literals (IR-level folding). Two oracles per case: (a) the value the blueprint presents equals the reference "
        "int32 ALU; (b) metamorphic twin: the same program with one constant leaf replaced by a declared input holding that "
        "value gives the same output. Non-trivial: Python-integer evaluation of the expression differs from int32 evaluation, or a "
        "negative operand meets / % >>. Distinct by (program text).")
ASSUMPTIONS = ["stated domain only: exponent >= 0, shift counts 0..31, no INT_MIN / -1 (cases outside are discarded and counted)"]

OPS = ["+", "-", "*", "/", "%", "**", "<<", ">>", "AND", "OR", "XOR"]


def budget(tier):
    return {"examples": 3000 if tier == "quick" else 20000, "wall_s": 110 if tier == "quick" else 900}


def py_eval(e):
    """Python-integer reading of the same expression (floor division etc.) - only used to classify cases."""
    if isinstance(e, Num):
        return e.v
    if isinstance(e, Un):
        return -py_eval(e.e)
    a, b = py_eval(e.l), py_eval(e.r)
    try:
        return {"+": a + b, "-": a - b, "*": a * b, "/": a // b if b else 0, "%": a % b if b else 0,
                "**": a ** b if 0 <= b < 64 else 0, "<<": a << b if 0 <= b < 64 else 0, ">>": a >> b if 0 <= b < 64 else 0,
                "AND": a & b, "OR": a | b, "XOR": a ^ b}[e.op]
    except Exception:  # noqa: BLE001
        return None


def ref_eval(e):
    if isinstance(e, Num):
        return wrap(e.v)
    if isinstance(e, Un):
        return arith("-", 0, ref_eval(e.e))
    return arith(e.op, ref_eval(e.l), ref_eval(e.r))


@st.composite
def const_expr(draw, depth, floor_div_ok=True):
    if depth <= 0 or draw(st.integers(0, 3)) == 0:
        return draw(gen.num(gen.int32()))
    op = draw(st.sampled_from(OPS))
    l = draw(const_expr(depth - 1, floor_div_ok))
    if op in ("<<", ">>"):
        r = Num(draw(st.integers(0, 31)))
    elif op == "**":
        # every exponent >= 0 is inside the stated domain: small ones, the word size and beyond
        r = Num(draw(st.one_of(st.integers(0, 9), st.integers(0, 70), st.sampled_from([31, 32, 33, 63, 64]))))
        l = draw(gen.num(st.one_of(st.integers(-40, 40), st.sampled_from([46341, -46341, 65536, 2, 3, 5, 7, -3, -5, 10, -2, 1 << 16]))))
    else:
        r = draw(const_expr(depth - 1, floor_div_ok))
    e = Bin(op, l, r)
    if draw(st.integers(0, 9)) == 0:
        e = Un("-", e)
    return e


SITES = ["decl", "intvar", "literal", "operand", "cmpconst", "condvalue", "funcarg", "loop", "irfold", "irfunc", "irfunc"]


@st.composite
def strategy_(draw, tier):
    site = draw(st.sampled_from(SITES))
    e = draw(const_expr(draw(st.integers(1, 3))))
    steered = 0
    if site == "irfunc":
        op = draw(st.sampled_from(OPS))
        l = draw(gen.num(gen.int32()))
        r = Num(draw(st.integers(0, 31))) if op in ("<<", ">>") else (Num(draw(st.one_of(st.integers(0, 9), st.integers(0, 70)))) if op == "**" else draw(gen.num(gen.int32())))
        if op == "**":
            l = Num(draw(st.integers(-40, 40)))
        if op == "/" and known.active("ir-fold-floor-div") and r.v != 0 and (l.v < 0) != (r.v < 0) and l.v % r.v != 0:
            # open finding F-irdiv: the IR optimiser floors a division of opposite-sign constants.
            # Steer by construction: give the divisor the dividend's sign.
            r = Num(-r.v)
            steered = 1
        e = Bin(op, l, r)
    return {"site": site, "steered": steered, "expr": e, "input": draw(gen.int32()), "optimize": draw(st.integers(0, 3)) != 0,
            "sched": {"seed": 0}, "opts": {"full_parens": draw(st.booleans())}}


def strategy(tier):
    return strategy_(tier)


def variants(case):
    from .. import shrink

    e = case["expr"]
    for path, sub in shrink._paths(e):
        for v in shrink._expr_variants(sub):
            try:
                yield {**case, "expr": shrink._rewrite(e, list(path), v) if path else v}
            except Exception:  # noqa: BLE001
                continue


def first_leaf_path(e, path=()):
    if isinstance(e, Num):
        return path
    if isinstance(e, Un):
        return first_leaf_path(e.e, path + ("e",))
    return first_leaf_path(e.l, path + ("l",))


def build_program(site, e, inp):
    """Returns (program, output name, function mapping the folded value v to the expected output)."""
    A = Decl("Signal", "a", SigLit("signal-A", Num(0)))
    if site == "decl":
        return Program((Decl("Signal", "out", e),)), "out", lambda v: v, False
    if site == "intvar":
        return Program((A, Decl("int", "k", e), Decl("Signal", "out", Bin("+", Ref("a"), Ref("k"))))), "out", lambda v: arith("+", inp, v), True
    if site == "literal":
        return Program((Decl("Signal", "out", SigLit("iron-plate", e)),)), "out", lambda v: v, False
    if site == "operand":
        return Program((A, Decl("Signal", "out", Bin("XOR", Ref("a"), e)))), "out", lambda v: arith("XOR", inp, v), True
    if site == "cmpconst":
        return Program((A, Decl("Signal", "out", Bin("<=", Ref("a"), lang.Paren(e))))), "out", lambda v: 1 if inp <= v else 0, True
    if site == "condvalue":
        return Program((A, Decl("Signal", "out", Cond(Bin("==", Ref("a"), Ref("a")), lang.Paren(e))))), "out", lambda v: v, True
    if site == "funcarg":
        f = Func("f", (("Signal", "s"), ("int", "n")), (Return(Bin("+", Ref("s"), Ref("n"))),))
        return Program((A, f, Decl("Signal", "out", Call("f", (Ref("a"), e))))), "out", lambda v: arith("+", inp, v), True
    if site == "loop":
        # loop-body arithmetic on the iterator: the expression's first leaf becomes the iterator
        p = first_leaf_path(e)
        first = e
        for step in p:
            first = getattr(first, step)
        from .. import shrink

        body_e = shrink._rewrite(e, list(p), Ref("i")) if p else Ref("i")
        loop = For("i", ListIter((first,)), (Decl("Signal", "out", Bin("+", Ref("a"), body_e)),))
        if first.v < 0 and first.base != 10:
            return None
        return Program((A, loop)), "out", lambda v: arith("+", inp, v), True
    if site == "irfunc":
        # the callee's Signal parameter is bound to an anonymous constant: folding happens in the IR optimiser
        if not isinstance(e, Bin) or not isinstance(e.l, Num) or not isinstance(e.r, Num):
            return None
        f = Func("f", (("Signal", "s"),), (Return(Bin(e.op, Ref("s"), e.r)),))
        return Program((f, Decl("Signal", "out", Call("f", (e.l,))))), "out", lambda v: v, False
    if site == "irfold":
        if not isinstance(e, Bin):
            return None
        l = SigLit("signal-A", e.l) if not isinstance(e.l, Num) else SigLit("signal-A", e.l)
        r = e.r
        return Program((Decl("Signal", "out", Bin(e.op, l, r)),)), "out", lambda v: v, False
    raise ValueError(site)


def read_output(bp, prog, name, inp, uses_input):
    circ = sim.load(bp)
    circ.reset()
    if uses_input:
        missing = obs.apply_inputs(circ, prog, {"a": inp})
        if "a" in missing:
            return "input-unlabelled"
    if circ.settle() is None:
        return "no-settle"
    o = obs.observe(circ, name)
    if o is None:
        # a value folded by the IR optimiser loses its label (that is C20's business): if the blueprint
        # consists of exactly one labelled '<..>_folded' constant, read that
        folded = [e for e in circ.entities.values() if e.kind == "const" and (e.desc["name"] or "").endswith("_folded")]
        if len(folded) == 1 and len(circ.entities) == 1:
            return folded[0].const_signals().get(folded[0].desc["signal"], 0)
        return "unlabelled"
    adv, net, _how = o
    return net.get(adv, 0)


def run_case(case):
    site, e, inp = case["site"], case["expr"], wrap(case["input"])
    try:
        v = ref_eval(e)
    except Unmodelled:
        return {"discard": "unmodelled"}
    built = build_program(site, e, inp)
    if built is None:
        return {"discard": "site-not-applicable"}
    prog, out, expect, uses_input = built
    case2 = {"prog": prog, "opts": case.get("opts", {}), "optimize": case.get("optimize", True), "sched": case.get("sched")}
    text, res = common.compile_case(case2)
    if not res.accepted:
        return common.reject_result(res)
    pv = py_eval(e)
    interesting = pv is None or pv != v or has_negative_div(e)
    classes = {"site:" + site, "optimize" if case.get("optimize", True) else "no-optimize"} | {"op:" + o for o in lang.ops_in(e) if not o.startswith("u")}
    fails = []
    try:
        want = expect(v)
        got = read_output(res.bp, prog, out, inp, uses_input)
    except Unmodelled:
        return {"discard": "unmodelled"}
    except sim.SimError as exc:
        return {"failures": [{"sig": "unexecutable-blueprint", "detail": str(exc)}], "sample": {"program": text}}
    if got in ("input-unlabelled", "unlabelled"):
        return {"discard": got, "classes": [got]}
    top = e.op if isinstance(e, Bin) else "u-"
    if got != want:
        fails.append({"sig": f"value:{site}:{top}", "detail": {"expression": lang.Printer().expr(e), "folded_should_be": v, "want_output": want,
                                                             "got_output": got, "python_int_value": pv, "input": inp}})
    # metamorphic twin: first constant leaf replaced by a declared input holding the same value
    if not fails and site in ("decl", "operand", "intvar") and isinstance(e, (Bin, Un)):
        from .. import shrink

        p = first_leaf_path(e)
        leaf = e
        for step in p:
            leaf = getattr(leaf, step)
        e2 = shrink._rewrite(e, list(p), Ref("z"))
        twin_prog = Program((Decl("Signal", "z", SigLit("signal-Z", Num(0))), Decl("Signal", "out", e2)))
        t2, r2 = twin.build(twin_prog, case.get("opts", {}), case.get("optimize", True), case.get("sched"))
        if r2.accepted and site == "decl":
            try:
                c2 = sim.load(r2.bp)
                c2.reset()
                if not obs.apply_inputs(c2, twin_prog, {"z": wrap(leaf.v)}) and c2.settle() is not None:
                    o2 = obs.observe(c2, "out")
                    if o2 is not None:
                        got2 = o2[1].get(o2[0], 0)
                        classes.add("twin-checked")
                        if got2 != got:
                            fails.append({"sig": f"twin-differs:{top}", "detail": {"expression": lang.Printer().expr(e), "constant_build": got,
                                                                                  "input_build": got2, "twin": t2}})
            except (Unmodelled, sim.SimError):
                pass
    return {"failures": fails, "nontrivial": interesting and not fails, "classes": sorted(classes),
            "counters": {"excluded_by:F-irdiv": case.get("steered", 0)},
            "sample": {"program": text, "expression": lang.Printer().expr(e), "int32_value": v, "python_value": pv}}


def has_negative_div(e):
    if isinstance(e, Bin):
        if e.op in ("/", "%", ">>"):
            try:
                if ref_eval(e.l) < 0 or (e.op != ">>" and ref_eval(e.r) < 0):
                    return True
            except Unmodelled:
                return False
        return has_negative_div(e.l) or has_negative_div(e.r)
    if isinstance(e, Un):
        return has_negative_div(e.e)
    return False


assert INT_MAX and INT_MIN
