"""C12 - independent computations do not interfere."""

from __future__ import annotations

from hypothesis import strategies as st

from .. import gen, known, lang, sim
from ..alu import Unmodelled
from . import twin

ID = "C12"
LEVEL = "exploration"
RULE = ("Hypothesis-generated pairs/triples of programs (scalar DAGs, bundle programs, entity programs, CSE bait, gated cells) "
        "from ONE shared signal palette and overlapping constants, identifiers made disjoint by prefixing, user entities moved to "
        "nearby non-overlapping tiles, statements interleaved by a generated order-preserving merge. Three or four compilations "
        "per case: each part alone and the composition. Oracle: for every valuation of a part's inputs and TWO different "
        "valuations of the other parts' inputs, every named output / entity condition of the part in the composition equals the "
        "one in the part compiled alone. Non-trivial: both parts emit combinators, share at least one explicit signal name, and "
        "the part's observations vary. Distinct by (composed program text, valuations).")
ASSUMPTIONS = ["gated cells are compared after each settled step of the same input history"]


def budget(tier):
    return {"examples": 700 if tier == "quick" else 12000, "wall_s": 110 if tier == "quick" else 900}


@st.composite
def part(draw, steer):
    kind = draw(st.sampled_from(["scalar", "scalar", "bundle", "entity", "cse", "memory"]))
    if kind == "scalar":
        p = draw(gen.scalar_program(early_virtual=True, linear=steer, max_stmts=4, max_depth=2))
    elif kind == "bundle":
        p = draw(gen.bundle_program(steer=steer, max_stmts=3))
    elif kind == "entity":
        p, _dom = draw(gen.entity_program(steer=steer, max_entities=3))
    elif kind == "cse":
        p = draw(gen.cse_program())
    else:
        p, _ths = draw(gen.gated_memory_program(steer=steer))
    return kind, p


@st.composite
def strategy_(draw, tier):
    steer = known.active("shared-network-leak")
    k = 2 if draw(st.integers(0, 3)) else 3
    parts = []
    if draw(st.integers(0, 3)) == 0:
        # two layout-heavy computations laid out side by side: same far-apart cells, a few tiles offset,
        # so that their relay paths run next to each other
        span = draw(st.sampled_from([20, 30, 45]))
        for i in range(2):
            p = draw(gen.spread_program(steer=steer, far=True, small_only=True, span=span, plain=True))
            p = lang.prefix_program(p, "pq"[i] + "_")
            p = lang.shift_places(p, draw(st.integers(0, 2)) if i else 0, (draw(st.integers(2, 4)) if i else 0))
            parts.append(("spread", p))
        k = 2
    else:
        for i in range(k):
            kind, p = draw(part(steer))
            p = lang.prefix_program(p, "pqr"[i] + "_")
            p = lang.shift_places(p, 60 * i, 40 * i if draw(st.booleans()) else 0)
            parts.append((kind, p))
    # order-preserving interleaving
    idx = [0] * k
    order = []
    total = sum(len(p.stmts) for _, p in parts)
    while len(order) < total:
        avail = [i for i in range(k) if idx[i] < len(parts[i][1].stmts)]
        i = draw(st.sampled_from(avail))
        order.append(i)
        idx[i] += 1
    vals = []
    for _, p in parts:
        names = list(lang.input_decls(p))
        v = draw(gen.valuations(names, 3))
        for x in v:
            for kk in x:
                if draw(st.booleans()):
                    x[kk] = draw(st.integers(-14, 24))
        vals.append(v)
    return {"parts": [p for _, p in parts], "kinds": [kd for kd, _ in parts], "order": order, "vals": vals,
            "optimize": draw(st.integers(0, 3)) != 0, "sched": {"seed": draw(st.integers(0, 3))}, "opts": {}}


def strategy(tier):
    return strategy_(tier)


def compose(parts, order):
    idx = [0] * len(parts)
    out = []
    for i in order:
        if idx[i] < len(parts[i].stmts):
            out.append(parts[i].stmts[idx[i]])
            idx[i] += 1
    for i, p in enumerate(parts):  # tolerate shrunk parts
        out += list(p.stmts[idx[i]:])
    return lang.Program(tuple(out))


def variants(case):
    from .. import shrink

    for i, p in enumerate(case["parts"]):
        for q in shrink.program_variants(p):
            ps = list(case["parts"])
            ps[i] = q
            yield {**case, "parts": ps}
    if len(case["parts"]) == 3:
        yield {**case, "parts": case["parts"][:2], "kinds": case["kinds"][:2], "vals": case["vals"][:2],
               "order": [o for o in case["order"] if o < 2]}


def init_of(p):
    return {n: (d.e.val.v if isinstance(d.e, lang.SigLit) else d.e.v) for n, d in lang.input_decls(p).items()}


def run_case(case):
    parts = case["parts"]
    if known.active("three-same-signal-sources") and any(lang.same_type_fanin(p) for p in parts):
        # open finding F-three-same: such a part is wired wrongly on its own, and differently in every layout
        return {"discard": "excluded:F-three-same", "counters": {"excluded_by:F-three-same": 1}}
    whole = compose(parts, case["order"])
    opt = case.get("optimize", True)
    text, rw = twin.build(whole, {}, opt, case.get("sched"))
    if not rw.accepted:
        # is a part refused on its own too?
        for p in parts:
            _t, rp = twin.build(p, {}, opt, case.get("sched"))
            if not rp.accepted:
                return {"discard": "rejected" if rp.status == "rejected" else "crashed", "message": rp.message}
        if "[layout_planning]" in (rw.message or ""):
            return {"discard": "layout-not-found", "message": rw.message[:200]}  # placement search out of budget: inconclusive
        return {"failures": [{"sig": "composition-refused", "detail": {"message": rw.message[:300]}}], "sample": {"program": text}}
    fails, classes = [], set(case["kinds"])
    varies = False
    combs = []
    try:
        cw = sim.load(rw.bp)
        for i, p in enumerate(parts):
            _t, rp = twin.build(p, {}, opt, case.get("sched"))
            if not rp.accepted:
                if "[layout_planning]" in (rp.message or ""):
                    return {"discard": "layout-not-found", "message": rp.message[:200]}
                fails.append({"sig": "part-refused-alone", "detail": {"part": i, "message": rp.message[:300]}})
                continue
            cp = sim.load(rp.bp)
            combs.append(cp.n_combinators())
            names = lang.unconsumed_outputs(p)
            steps = case["vals"][i]
            alone = twin.run_steps(cp, p, steps, names, init_of(p))
            if alone == "input-unlabelled":
                return {"discard": "input-unlabelled"}
            for alt in range(2):
                other = {}
                for j, q in enumerate(parts):
                    if j != i:
                        other.update(init_of(q))
                        vj = case["vals"][j]
                        if vj:
                            other.update(vj[alt % len(vj)])
                init = dict(other)
                init.update(init_of(p))
                tog = twin.run_steps(cw, whole, steps, names, init)
                if tog == "input-unlabelled":
                    return {"discard": "input-unlabelled"}
                # entity keys of other parts appear only in the composition: restrict to this part's
                keep = set()
                for r in alone:
                    if r and r != "unmodelled":
                        keep |= set(r)
                tog = [r if (r is None or r == "unmodelled") else {k: v for k, v in r.items() if k in keep} for r in tog]
                f = twin.compare(alone, tog, names, f"part {i} ({case['kinds'][i]}) alone vs composed, other-valuation {alt}")
                for x in f:
                    x["sig"] = f"{case['kinds'][i]}:{x['sig']}"
                fails += f
            if len({repr(r) for r in alone if r and r != "unmodelled"}) > 1:
                varies = True
    except Unmodelled:
        return {"discard": "unmodelled"}
    except sim.SimError as exc:
        return {"failures": [{"sig": "unexecutable-blueprint", "detail": str(exc)}], "sample": {"program": text}}
    uniq = {}
    for f in fails:
        uniq.setdefault(f["sig"], f)

    def sigs(p):
        acc = set()

        def walk(e):
            if isinstance(e, (lang.SigLit, lang.Proj)) and isinstance(e.ty, str):
                acc.add(e.ty)
            for c in lang.children(e):
                if not isinstance(c, str):
                    walk(c)

        for s in p.stmts:
            for e in lang.stmt_exprs(s):
                walk(e)
            if isinstance(s, lang.MemDecl) and s.ty:
                acc.add(s.ty)
        return acc

    shared = bool(sigs(parts[0]) & sigs(parts[1])) if len(parts) > 1 else False
    classes.add("shared-signal" if shared else "disjoint-signals")
    return {"failures": list(uniq.values()), "nontrivial": shared and varies and len([c for c in combs if c > 0]) >= 2 and not fails,
            "classes": sorted(classes), "sample": {"program": text, "kinds": case["kinds"]}}
