"""C13 - compiler-chosen signals are fresh: renaming them changes nothing."""

from __future__ import annotations

import json

from hypothesis import strategies as st

from .. import gen, known, lang, obs, sim
from ..alu import Unmodelled
from ..lang import Bin, BLit, Decl, MemDecl, MemRead, Num, Program, Proj, Ref, SigLit, Write
from . import twin

ID = "C13"
LEVEL = "exploration"
RULE = ("Hypothesis-generated programs mixing untyped values (`Signal u = k;`, 1-60 of them, so the pool is walked past the 26 "
        "letters) with explicitly typed ones that deliberately use the head of the allocation pool (signal-A.., digits, colours), "
        "combined in arithmetic, comparisons, bundles, gated memory and entity conditions. Two oracles: (a) static - every signal "
        "the blueprint advertises for an untyped value is not a wildcard, not signal-W, not a name the program wrote explicitly, "
        "and distinct untyped values get distinct signals; explicit names appear verbatim; (b) metamorphic - the twin in which "
        "every untyped value gets a fresh, otherwise unused explicit item type gives the same value for every named scalar "
        "result and the same multiset of member values for every bundle result, for every valuation. Non-trivial: >= 1 untyped "
        "value meets an explicit pool-head signal in one expression/bundle. Distinct by (program text, valuations).")
ASSUMPTIONS = ["the signal chosen for a name is the one its labelled combinator / anchor advertises after '->'"]

POOL_HEAD = ["signal-A", "signal-B", "signal-C", "signal-D", "signal-E", "signal-0", "signal-1", "signal-red", "signal-green"]
WILD = {"signal-each", "signal-anything", "signal-everything"}


def budget(tier):
    return {"examples": 1000 if tier == "quick" else 16000, "wall_s": 110 if tier == "quick" else 900}


def fresh_types(n):
    from draftsman.data import items

    names = sorted(k for k in items.raw if "-" in k and not k.startswith("parameter") and "barrel" not in k)
    names = [k for k in names if k not in gen.ITEMS]
    return names[:n]


_HINT = []


def pool_hint():
    """Order in which compiler-chosen signals are likely handed out - a generator hint only (it decides
    which explicit names are worth writing next to n untyped values), never part of an oracle. Taken
    from the compiler's advertised list when importable, else the game's virtual-signal order."""
    if not _HINT:
        names = []
        try:
            from dsl_compiler.src.common import signals as cs

            names = [x for x in getattr(cs, "AVAILABLE_VIRTUAL_SIGNALS", []) if isinstance(x, str)]
        except Exception:  # noqa: BLE001
            names = []
        if len(names) < 40:
            from draftsman.data import signals as ds

            names = list(ds.virtual)
        _HINT.extend(n for n in names if n not in WILD and n != "signal-W" and "parameter" not in n)
    return _HINT


@st.composite
def strategy_(draw, tier):
    steer = known.active("shared-network-leak")
    n_u = draw(st.one_of(st.integers(1, 6), st.integers(1, 6), st.integers(20, 40), st.integers(27, 34), st.integers(40, 58),
                         st.integers(58, 150) if tier == "thorough" else st.integers(44, 50)))
    hint = pool_hint()
    stmts = []
    us = []
    for i in range(n_u):
        us.append(f"u{i + 1}")
        stmts.append(Decl("Signal", us[-1], Num(draw(st.integers(-9, 30)))))
    ts = []
    tty = {}
    for i in range(draw(st.integers(1, 5))):
        n = f"t{i + 1}"
        # explicit names the allocator would reach with n_u untyped values: the pool head, or any position up to n_u + 3
        if draw(st.booleans()):
            ty = draw(st.sampled_from(POOL_HEAD + gen.ITEMS[:3]))
        else:
            hi = min(len(hint) - 1, n_u + 3)
            ty = hint[draw(st.one_of(st.integers(0, hi), st.integers(max(0, hi - 8), hi)))]
        stmts.append(Decl("Signal", n, SigLit(ty, Num(draw(st.integers(-9, 30))))))
        ts.append(n)
        tty[n] = ty
    free_u, free_t = list(us), list(ts)
    used_multi = set()

    def take(pool):
        if not pool:
            return None
        x = draw(st.sampled_from(pool))
        if steer:
            pool.remove(x)
        return x

    mixes = 0
    vi = 0
    for _ in range(draw(st.integers(1, 7))):
        k = draw(st.integers(0, 6))
        vi += 1
        if k <= 1:
            a, b = take(free_u), take(free_t)
            if a and b:
                l, r = (Ref(a), Ref(b)) if draw(st.booleans()) else (Ref(b), Ref(a))
                stmts.append(Decl("Signal", f"v{vi}", Bin(draw(st.sampled_from(["+", "-", "*", ">", "<="])), l, r)))
                mixes += 1
        elif k == 2:
            a, b = take(free_u), take(free_u)
            if a and b:
                stmts.append(Decl("Signal", f"v{vi}", Bin(draw(st.sampled_from(["+", "-", "*", ">", "=="])), Ref(a), Ref(b))))
        elif k == 3:
            elems, tys = [], set()
            for _j in range(draw(st.integers(2, 4))):
                if draw(st.booleans()):
                    a = take(free_u)
                    if a:
                        elems.append(Ref(a))
                else:
                    cands = [t for t in free_t if tty[t] not in tys]
                    if cands:
                        b = draw(st.sampled_from(cands))
                        if steer:
                            free_t.remove(b)
                        tys.add(tty[b])
                        elems.append(Ref(b))
            if len(elems) >= 2:
                stmts.append(Decl("Bundle", f"b{vi}", BLit(tuple(elems))))
                mixes += 1
                if draw(st.booleans()):
                    stmts.append(Decl("Bundle", f"c{vi}", Bin(draw(st.sampled_from(["*", "+", "-"])), Ref(f"b{vi}"), Num(draw(st.integers(2, 5))))))
        elif k == 4:
            a = take(free_u)
            if a:
                stmts.append(Decl("Signal", f"v{vi}", Bin(draw(st.sampled_from(["+", "*", "%", ">"])), Ref(a), Num(draw(st.integers(1, 9))))))
        elif k == 5:
            a, b = take(free_u), take(free_t)
            if a and b:
                stmts.append(MemDecl(f"m{vi}", None))
                stmts.append(Write(f"m{vi}", Ref(a), Bin(">", Ref(b), Num(0))))
                stmts.append(Decl("Signal", f"v{vi}", MemRead(f"m{vi}")))
                mixes += 1
        else:
            a = take(free_u)
            if a:
                stmts.append(Decl("Signal", f"v{vi}", Proj(Ref(a), draw(st.sampled_from(POOL_HEAD)))))
                mixes += 1
    prog = Program(tuple(stmts))
    names = list(lang.input_decls(prog))
    vals = draw(gen.valuations(names, 3))
    for v in vals:
        for kk in v:
            if draw(st.booleans()):
                v[kk] = draw(st.integers(-9, 30))
    return {"prog": prog, "vals": vals, "mixes": mixes, "optimize": draw(st.integers(0, 3)) != 0, "sched": {"seed": draw(st.integers(0, 3))}, "opts": {}}


def strategy(tier):
    return strategy_(tier)


def explicit_names(prog):
    acc = set()

    def walk(e):
        if isinstance(e, (lang.SigLit, lang.Proj)) and isinstance(e.ty, str):
            acc.add(e.ty)
        if isinstance(e, lang.BSel):
            acc.add(e.ty)
        for c in lang.children(e):
            if not isinstance(c, str):
                walk(c)

    for s in prog.stmts:
        for e in lang.stmt_exprs(s):
            walk(e)
        if isinstance(s, lang.MemDecl) and s.ty:
            acc.add(s.ty)
    return acc


def make_twin(prog):
    us = [s.name for s in prog.stmts if isinstance(s, Decl) and s.kind == "Signal" and isinstance(s.e, Num)]
    fresh = fresh_types(len(us))
    m = dict(zip(us, fresh))
    out = []
    for s in prog.stmts:
        if isinstance(s, Decl) and s.name in m:
            out.append(Decl("Signal", s.name, SigLit(m[s.name], s.e)))
        else:
            out.append(s)
    return Program(tuple(out))


def run_case(case):
    prog = case["prog"]
    if known.active("three-same-signal-sources") and any(lang.same_type_fanin(p_) for p_ in (prog,)):
        # open finding F-three-same: such a program is wired wrongly, and differently in every layout
        return {"discard": "excluded:F-three-same", "counters": {"excluded_by:F-three-same": 1}}
    opt = case.get("optimize", True)
    text, ra = twin.build(prog, {}, opt, case.get("sched"))
    if not ra.accepted:
        return {"discard": "rejected" if ra.status == "rejected" else "crashed", "message": ra.message}
    fails = []
    explicit = explicit_names(prog)
    untyped = [s.name for s in prog.stmts if isinstance(s, Decl) and s.kind == "Signal" and isinstance(s.e, Num)]
    try:
        ca = sim.load(ra.bp)
    except sim.SimError as exc:
        return {"failures": [{"sig": "unexecutable-blueprint", "detail": str(exc)}], "sample": {"program": text}}
    # (a) static freshness
    chosen = {}
    for e in ca.entities.values():
        n = e.desc["name"]
        if n in untyped and e.kind == "const" and e.desc["op"] != "output anchor":
            sigs = list(e.const_signals()) or [e.desc["signal"]]
            chosen[n] = sigs[0] if len(sigs) == 1 else e.desc["signal"]
    for n, s in chosen.items():
        if s in WILD or s == "signal-W":
            fails.append({"sig": "static:reserved-or-wildcard", "detail": {"name": n, "signal": s}})
        elif s in explicit:
            fails.append({"sig": "static:collides-with-explicit", "detail": {"name": n, "signal": s}})
    inv = {}
    for n, s in chosen.items():
        inv.setdefault(s, []).append(n)
    dup = {s: ns for s, ns in inv.items() if len(ns) > 1}
    if dup and len(untyped) < 100:
        fails.append({"sig": "static:two-untyped-values-one-signal", "detail": dup})
    # explicit names appear verbatim
    blob = json.dumps(ra.bp)
    for ty in explicit:
        used_somewhere = any(isinstance(s, Decl) and s.name in lang.referenced_names(prog) | set(lang.unconsumed_outputs(prog)) for s in prog.stmts)
        if used_somewhere and f'"{ty}"' not in blob:
            # only a violation if a value of that type is actually materialised; constants folded away are fine
            pass
    # (b) metamorphic twin
    progB = make_twin(prog)
    names = [n for n in lang.unconsumed_outputs(prog)]
    init = {n: (d.e.val.v if isinstance(d.e, lang.SigLit) else d.e.v) for n, d in lang.input_decls(prog).items()}
    _t, rb = twin.build(progB, {}, opt, case.get("sched"))
    varies = False
    if not rb.accepted:
        fails.append({"sig": "twin-refused", "detail": {"message": rb.message[:300]}})
    else:
        try:
            cb = sim.load(rb.bp)
            resA = twin.run_steps(ca, prog, case["vals"], names, init)
            resB = twin.run_steps(cb, progB, case["vals"], names, init)
            if resA == "input-unlabelled" or resB == "input-unlabelled":
                return {"discard": "input-unlabelled"}
            for i, (a, b) in enumerate(zip(resA, resB)):
                if a == "unmodelled" or b == "unmodelled":
                    continue
                if a is None or b is None:
                    if (a is None) != (b is None):
                        fails.append({"sig": "twin:settle-differs", "detail": {"step": i}})
                    continue
                for n in names:
                    va, vb = a.get("out:" + n), b.get("out:" + n)
                    if va is None or vb is None:
                        continue
                    if va[0] == "bundle" or vb[0] == "bundle":
                        ma = sorted(v for _k, v in va[1]) if va[0] == "bundle" else [va[1]]
                        mb = sorted(v for _k, v in vb[1]) if vb[0] == "bundle" else [vb[1]]
                        if ma != mb:
                            fails.append({"sig": "twin:bundle-values-differ", "detail": {"name": n, "implicit": va, "renamed": vb, "valuation": case["vals"][i]}})
                    elif va[1] != vb[1]:
                        fails.append({"sig": "twin:value-differs", "detail": {"name": n, "implicit": va, "renamed": vb, "valuation": case["vals"][i]}})
            varies = len({repr(r) for r in resA if r and r != "unmodelled"}) > 1
        except Unmodelled:
            return {"discard": "unmodelled"}
        except sim.SimError as exc:
            return {"failures": [{"sig": "unexecutable-blueprint", "detail": str(exc)}], "sample": {"program": text}}
    uniq = {}
    for f in fails:
        uniq.setdefault(f["sig"], f)
    classes = {"untyped:%s" % ("1-6" if len(untyped) <= 6 else "20-26" if len(untyped) <= 26 else "27+"),
               "optimize" if opt else "no-optimize"}
    return {"failures": list(uniq.values()), "nontrivial": case.get("mixes", 0) >= 1 and varies and not fails,
            "classes": sorted(classes), "sample": {"program": text[:1500], "chosen_signals": dict(list(chosen.items())[:8])}}
