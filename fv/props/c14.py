"""C14 - ill-formed programs are rejected and produce no blueprint."""

from __future__ import annotations

import os
import tempfile

from hypothesis import strategies as st

from .. import drive, gen, known, lang
from ..lang import Program, Raw

ID = "C14"
LEVEL = "exploration"
RULE = ("Catalogue of rule instances (each a construct the documentation / the analyser's own messages declare an error: undefined "
        "variable/function/memory/entity, redefinition, assignment to an immutable, wrong kind for declared type or parameter, "
        "arity, direct and indirect recursion, duplicate bundle type incl. via nesting, Bundle OP Bundle, bare bundle comparison, "
        "absent member, unknown signal, every use of signal-W, contradicting write type, second write (also through a loop), zero "
        "step literal and via int variable, non-comparison before ':', four kinds of syntax error) x an embedding: a generated "
        "accepted host program (fixed prelude + Hypothesis-generated scalar statements), a statement position, and a nesting "
        "(top level, function body, loop body, loop inside function). Oracle: the same embedding with a benign statement is "
        "accepted (checked, else the case is discarded); with the violating construct the compiler must refuse with a "
        "diagnosed, non-empty error and return nothing that decodes as a blueprint; for a sampled subset the real CLI is run: "
        "non-zero exit status, no blueprint on stdout or in the -o file. Non-trivial: the violation sits below top level or after "
        ">= 2 generated statements. Distinct by (rule, embedding, host text).")
ASSUMPTIONS = ["a refusal is a diagnosed error (RuntimeError '[stage] ...' / SyntaxError / success=False); any other exception type is reported as a crash"]

PRELUDE = '''Signal hs = ("signal-A", 5);
int hk = 3;
Bundle hb = { ("iron-plate", 1), ("copper-plate", 2) };
Memory hm: "signal-B";
hm.write(hs | "signal-B", when = hs > 2);
Entity he = place("small-lamp", 40, 40);
he.enable = hs > 1;
func hf(Signal p, int q) { return p + q; }
Signal hr = hf(hs, 2);
'''

LOCAL = 'Signal ms = ("signal-C", 4);\nBundle mb = { ("iron-plate", 1), ("copper-plate", 2) };\n'

# rule -> (snippet, needs_top_level_defs)
RULES = {
    "undef-var": ("Signal zz = nope + 1;", None),
    "undef-func": (LOCAL + "Signal zz = nofunc(ms);", None),
    "undef-mem-read": ("Signal zz = nomem.read();", None),
    "undef-mem-write": (LOCAL + "nomem.write(ms);", None),
    "undef-entity": (LOCAL + "noent.enable = ms > 1;", None),
    "redef": ("Signal zq = 1;\nSignal zq = 2;", None),
    "redef-kind": ("Signal zq = 1;\nint zq = 2;", None),
    "assign-immutable-int": ("int zk = 3;\nzk = 5;", None),
    "assign-immutable-sig": (LOCAL + "ms = ms + 1;", None),
    "int-from-signal": (LOCAL + "int zz = ms;", None),
    "signal-from-bundle": (LOCAL + "Signal zz = mb;", None),
    "bundle-from-int": ("Bundle zz = 5;", None),
    "entity-from-int": ("Entity zz = 5;", None),
    "param-kind": (LOCAL + "Signal zz = hf(mb, 2);", None),
    "arity-less": (LOCAL + "Signal zz = hf(ms);", None),
    "arity-more": (LOCAL + "Signal zz = hf(ms, 1, 2);", None),
    "recursion": (LOCAL + "Signal zz = rec(ms);", "func rec(Signal p) { return rec(p); }\n"),
    "indirect-recursion": (LOCAL + "Signal zz = ra(ms);", "func rb(Signal p) { return p + 1; }\nfunc ra(Signal p) { return rc(p); }\nfunc rc(Signal p) { return ra(p); }\n"),
    "dup-bundle": ('Bundle zz = { ("iron-plate", 1), ("iron-plate", 2) };', None),
    "dup-bundle-nested": (LOCAL + 'Bundle zz = { mb, ("iron-plate", 5) };', None),
    "bundle-op-bundle": (LOCAL + "Bundle zz = mb + mb;", None),
    "bare-bundle-cmp": (LOCAL + "Signal zz = mb > 5;", None),
    "absent-member": (LOCAL + 'Signal zz = mb["coal"];', None),
    "unknown-signal": ('Signal zz = ("not-a-signal", 1);', None),
    "unknown-signal-proj": (LOCAL + 'Signal zz = ms | "not-a-signal";', None),
    "unknown-mem-type": ('Memory zm: "not-a-signal";', None),
    "W-literal": ('Signal zz = ("signal-W", 1);', None),
    "W-proj": (LOCAL + 'Signal zz = ms | "signal-W";', None),
    "W-mem": ('Memory zm: "signal-W";', None),
    "W-bundle": ('Bundle zz = { ("signal-W", 1), ("iron-plate", 2) };', None),
    "W-literal-operand": (LOCAL + 'Signal zz = ms + ("signal-W", 1);', None),
    "write-type": ('Memory zm: "signal-C";\nzm.write(("iron-plate", 3));', None),
    "second-write": ('Memory zm: "signal-C";\nzm.write(("signal-C", 1));\nzm.write(("signal-C", 2));', None),
    "second-write-via-loop": ('Memory zm: "signal-C";\nfor zw in 0..2 {\n    zm.write(("signal-C", 1));\n}', None),
    "zero-step": ("for zi in 0..5 step 0 {\n    Signal zq = 1;\n}", None),
    "zero-step-var": ("int zs = 0;\nfor zi in 0..5 step zs {\n    Signal zq = 1;\n}", None),
    "noncmp-cond": (LOCAL + "Signal zz = (ms + 1) : ms;", None),
    "syntax-unbalanced": (LOCAL + "Signal zz = ((ms);", None),
    "syntax-nosemi": ("Signal zz = 5\nSignal zy = 6;", None),
    "syntax-stray": ("Signal zz = 5 $ 3;", None),
    "syntax-operator": (LOCAL + "Signal zz = ms + ;", None),
}
BENIGN = LOCAL + "Signal zben = ms + 1;"
EMBEDDINGS = ["top", "func", "loop", "func-loop", "loop-loop"]
KNOWN_ACCEPTED = {"second-write-via-loop": "accepts-second-write-via-loop"}


def budget(tier):
    return {"examples": 900 if tier == "quick" else 12000, "wall_s": 110 if tier == "quick" else 900}


def indent(text, n):
    return "\n".join(("    " * n + ln) if ln else ln for ln in text.split("\n"))


def embed(snippet, how):
    if how == "top":
        return snippet + "\n"
    if how == "func":
        return "func zf(Signal zp) {\n" + indent(snippet, 1) + "\n    return zp;\n}\nSignal zcall = zf(hs);\n"
    if how == "loop":
        return "for zl in 0..1 {\n" + indent(snippet, 1) + "\n}\n"
    if how == "func-loop":
        return ("func zf(Signal zp) {\n    for zl in 0..1 {\n" + indent(snippet, 2) + "\n    }\n    return zp;\n}\nSignal zcall = zf(hs);\n")
    if how == "loop-loop":
        return "for zl in 0..1 {\n    for zm2 in 5..6 {\n" + indent(snippet, 2) + "\n    }\n}\n"
    raise ValueError(how)


@st.composite
def strategy_(draw, tier):
    rule = draw(st.sampled_from(sorted(RULES)))
    how = draw(st.sampled_from(EMBEDDINGS))
    extra = draw(gen.scalar_program(early_virtual=True, linear=known.active("shared-network-leak"), max_stmts=4, max_depth=2))
    extra = lang.prefix_program(extra, "x_")
    pos = draw(st.integers(0, len(extra.stmts)))
    cli = draw(st.integers(0, 19 if tier == "quick" else 9)) == 0
    return {"rule": rule, "how": how, "extra": extra, "pos": pos, "cli": cli, "optimize": draw(st.booleans())}


def strategy(tier):
    return strategy_(tier)


def variants(case):
    from .. import shrink

    if case["how"] != "top":
        yield {**case, "how": "top"}
    for p in shrink.program_variants(case["extra"]):
        yield {**case, "extra": p, "pos": min(case["pos"], len(p.stmts))}
    if case.get("cli"):
        yield {**case, "cli": False}


def build_text(case, snippet):
    extra = case["extra"]
    pr = lang.Printer()
    before, after = [], []
    for i, s in enumerate(extra.stmts):
        (before if i < case["pos"] else after).extend(pr.stmt(s))
    defs = RULES[case["rule"]][1] or ""
    return PRELUDE + defs + "\n".join(before) + ("\n" if before else "") + embed(snippet, case["how"]) + "\n".join(after) + "\n"


def run_case(case):
    rule = case["rule"]
    if rule not in RULES:
        return {"discard": "unknown-rule"}
    snippet = RULES[rule][0]
    opt = case.get("optimize", True)
    benign_text = build_text(case, BENIGN)
    rb = drive.compile_source(benign_text, optimize=opt)
    if not rb.accepted:
        return {"discard": "host-refused", "message": rb.message}
    text = build_text(case, snippet)
    r = drive.compile_source(text, optimize=opt, use_json=bool(case["pos"] % 2))
    fails = []
    sigk = f"{rule}@{case['how']}"
    excluded = {}
    if r.accepted:
        trig = KNOWN_ACCEPTED.get(rule)
        if trig and known.active(trig):
            excluded[trig] = 1
        else:
            fails.append({"sig": f"accepted:{sigk}", "detail": {"rule": rule, "embedding": case["how"], "entities": len((r.bp or {}).get("blueprint", {}).get("entities", []))}})
    elif r.status == "crashed":
        fails.append({"sig": f"crash:{sigk}", "detail": {"rule": rule, "message": r.message[:300]}})
    else:
        if not r.message.strip():
            fails.append({"sig": f"empty-message:{sigk}", "detail": {"rule": rule}})
        if r.text and drive.looks_like_blueprint(r.text):
            fails.append({"sig": f"blueprint-emitted:{sigk}", "detail": {"rule": rule}})
    classes = {"rule:" + rule, "embed:" + case["how"]}
    if case.get("cli") and not fails and not excluded:
        classes.add("cli")
        with tempfile.TemporaryDirectory(prefix="fv14_") as td:
            src = os.path.join(td, "prog.facto")
            out = os.path.join(td, "out.bp")
            with open(src, "w") as fh:
                fh.write(text)
            entry = "module" if case["pos"] % 2 else "compile_py"
            args = [src, "-o", out] if case["pos"] % 3 == 0 else [src]
            code, so, se = drive.run_cli(args, entry=entry)
            if code == 0:
                fails.append({"sig": f"cli-exit-0:{sigk}", "detail": {"entry": entry, "stdout": so[:200]}})
            if drive.looks_like_blueprint(so):
                fails.append({"sig": f"cli-blueprint-on-stdout:{sigk}", "detail": {"entry": entry}})
            if os.path.exists(out) and drive.looks_like_blueprint(open(out).read()):
                fails.append({"sig": f"cli-blueprint-in-file:{sigk}", "detail": {"entry": entry}})
            if not (se.strip() or so.strip()):
                fails.append({"sig": f"cli-silent:{sigk}", "detail": {"entry": entry}})
    nontrivial = (case["how"] != "top" or case["pos"] >= 2) and not fails and not excluded
    return {"failures": fails, "nontrivial": nontrivial, "classes": sorted(classes),
            "counters": {"excluded_by:" + k: v for k, v in excluded.items()},
            "sample": {"rule": rule, "embedding": case["how"], "program_tail": text[-500:], "refusal": r.message[:160]}}


assert Program and Raw
