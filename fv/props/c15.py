"""C15 - calling a function equals substituting its body."""

from __future__ import annotations

from hypothesis import strategies as st

from .. import gen, known, lang
from . import twin

ID = "C15"
LEVEL = "exploration"
RULE = ("One abstract description, two printers: program A declares 1-2 functions (int / Signal parameters, locals that may "
        "shadow caller names, a nested call of f1 inside f2, returns of arithmetic / cond:value) and calls them 1-3 times with "
        "signal, int-variable and literal arguments (int->Signal coercion); program B has every call replaced by the body with "
        "parameters substituted and locals renamed apart per call site. Both are compiled and executed on the same valuations. "
        "Oracle: every call result (same top-level name in both) has the same value; same user entities and entity conditions. "
        "Non-trivial: >= 1 call whose result varies with the valuation, both builds accepted. Distinct by (program A, valuations).")
ASSUMPTIONS = ["argument expressions are names or literals, so substitution does not duplicate work"]


def budget(tier):
    return {"examples": 1600 if tier == "quick" else 14000, "wall_s": 110 if tier == "quick" else 900}


@st.composite
def strategy_(draw, tier):
    a, b = draw(gen.func_case(steer=known.active("shared-network-leak")))
    names = list(lang.input_decls(a))
    vals = draw(gen.valuations(names, 3 if tier == "quick" else 6))
    for v in vals:
        for k in v:
            if draw(st.booleans()):
                v[k] = draw(st.integers(-8, 12))
    return {"prog": a, "prog2": b, "vals": vals, "optimize": draw(st.integers(0, 3)) != 0,
            "sched": {"seed": draw(st.integers(0, 3))}, "opts": {}}


def strategy(tier):
    return strategy_(tier)


def variants(case):
    if len(case["vals"]) > 1:
        for v in case["vals"]:
            yield {**case, "vals": [v]}


def run_case(case):
    a, b = case["prog"], case["prog2"]
    if known.active("three-same-signal-sources") and any(lang.same_type_fanin(p_) for p_ in (b,)):
        # open finding F-three-same: such a program is wired wrongly, and differently in every layout
        return {"discard": "excluded:F-three-same", "counters": {"excluded_by:F-three-same": 1}}
    names = [s.name for s in a.stmts if isinstance(s, lang.Decl) and s.name.startswith("r")]
    init = {n: (d.e.val.v if isinstance(d.e, lang.SigLit) else d.e.v) for n, d in lang.input_decls(a).items()}
    r = twin.twin_check(a, b, case, names, case["vals"], init=init, optimizeA=case.get("optimize", True),
                        optimizeB=case.get("optimize", True), label="A=calls B=substituted")
    if r.get("discard"):
        return r
    classes = {"calls:%d" % len(names)}
    if any(isinstance(s, lang.Func) and any(isinstance(x, lang.Decl) and isinstance(x.e, lang.Call) for x in s.body) for s in a.stmts):
        classes.add("nested-call")
    return {"failures": r.get("failures", []), "nontrivial": r.get("varies", False) and not r.get("failures"),
            "classes": sorted(classes), "sample": {"with_calls": r["sample"]["A"], "substituted": r["sample"]["B"]}}
