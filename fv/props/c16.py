"""C16 - a for loop equals its unrolling."""

from __future__ import annotations

from hypothesis import strategies as st

from .. import gen, known, lang
from . import twin

ID = "C16"
LEVEL = "exploration"
RULE = ("One abstract description, two printers: program A uses `for` loops (ranges over (start, stop, step) in [-6,6]^3 incl. "
        "negatives, empty ranges, non-dividing steps, bounds through int variables; list iterators incl. empty; nesting), program "
        "B is the reference unrolling (body copied per value, iterator replaced by the literal, body names renamed apart). Bodies "
        "use the iterator in place() coordinates, arithmetic with inputs, comparisons, typed-literal values and local ints. Both "
        "are compiled and executed on the same input valuations. Oracle: same multiset of user entities (prototype, position), "
        "same condition state of every entity, same multiset of output-anchor values. Non-trivial: >= 2 iterations in total, both "
        "builds accepted, observations vary with the valuation. Distinct by (program A text, valuations).")
ASSUMPTIONS = ["names declared inside a loop body are compared name-agnostically (multiset of anchor values)"]


def budget(tier):
    return {"examples": 1400 if tier == "quick" else 14000, "wall_s": 110 if tier == "quick" else 900}


@st.composite
def strategy_(draw, tier):
    a, b, info = draw(gen.loop_case(tier, avoid_shadow=known.active("loop-shadow-leaks")))
    names = list(lang.input_decls(a))
    vals = draw(gen.valuations(names, 3 if tier == "quick" else 6))
    for v in vals:
        for k in v:
            if draw(st.booleans()):
                v[k] = draw(st.integers(-8, 12))
    return {"prog": a, "prog2": b, "info": {k: (v if not isinstance(v, list) else [list(x) for x in v]) for k, v in info.items()},
            "vals": vals, "optimize": draw(st.integers(0, 3)) != 0, "sched": {"seed": draw(st.integers(0, 3))}, "opts": {}}


def strategy(tier):
    return strategy_(tier)


def variants(case):
    if len(case["vals"]) > 1:
        for v in case["vals"]:
            yield {**case, "vals": [v]}


def run_case(case):
    a, b = case["prog"], case["prog2"]
    if known.active("three-same-signal-sources") and any(lang.same_type_fanin(p_) for p_ in (b,)):
        # open finding F-three-same: such a program is wired wrongly, and differently in every layout
        return {"discard": "excluded:F-three-same", "counters": {"excluded_by:F-three-same": 1}}
    init = {n: (d.e.val.v if isinstance(d.e, lang.SigLit) else d.e.v) for n, d in lang.input_decls(a).items()}
    skipA, skipB, excluded = set(), set(), {}
    if known.active("loop-local-output-not-exposed"):
        # open finding F-loop-local-output: an unconsumed Signal declared in a loop body is exported once per iteration by
        # the unrolled program but not by the loop. Anchors of body-declared names are left out of the comparison.
        def body_names(stmts, acc):
            for s_ in stmts:
                if isinstance(s_, lang.For):
                    for x in s_.body:
                        if isinstance(x, lang.Decl) and x.kind in ("Signal", "Bundle"):
                            acc.add(x.name)
                    body_names(s_.body, acc)
                elif isinstance(s_, lang.Func):
                    body_names(s_.body, acc)
            return acc

        skipA = body_names(a.stmts, set())
        top_a = {s_.name for s_ in a.stmts if isinstance(s_, lang.Decl)}
        skipB = {s_.name for s_ in b.stmts if isinstance(s_, lang.Decl) and s_.kind in ("Signal", "Bundle") and s_.name not in top_a}
        if skipA:
            excluded["F-loop-local-output"] = 1
    r = twin.agnostic_twin(a, b, case, case["vals"], init, case.get("optimize", True), skipA, skipB)
    if r.get("discard"):
        return r
    info = case.get("info", {})
    classes = set()
    for k in ("nested", "list", "var_bounds", "empty", "func_loop", "shadow"):
        if info.get(k):
            classes.add(k)
    n_iter = sum(1 for s in b.stmts if isinstance(s, lang.Decl) and s.kind == "Entity")
    classes.add("entities:%d" % min(n_iter, 8))
    return {"failures": r.get("failures", []), "nontrivial": n_iter >= 2 and r.get("varies", False) and not r.get("failures"),
            "classes": sorted(classes), "counters": {"excluded_by:" + k: v for k, v in excluded.items()},
            "sample": {"looped": r["sample"]["A"], "unrolled": r["sample"]["B"][:600]}}
