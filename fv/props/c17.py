"""C17 - imports are textual inclusion and the standard library meets its contracts."""

from __future__ import annotations

import os
import shutil
import tempfile

from hypothesis import strategies as st

from .. import drive, gen, known, lang, obs, sim
from ..alu import INT_MAX, INT_MIN, Unmodelled, arith
from ..lang import Bin, Call, Decl, Func, Import, Num, Program, Ref, Return, SigLit
from . import twin

ID = "C17"
LEVEL = "exploration"
RULE = ("Two generated families. (imports) A generated import graph over 2-5 library files in a temporary directory - chains, "
        "diamonds, cycles, a file imported twice, files next to the importer / in a sub-directory / on FACTORIO_IMPORT_PATH / the "
        "bundled lib - each file defining 1-2 functions; a main program that imports and calls them; compiled through the real "
        "CLI by file path from three working directories (repository, the temp dir, /). Oracle: every run terminates with exit 0, "
        "and the decoded blueprint gives, on generated valuations, the same named outputs as the twin in which the files' text "
        "is pasted once each in dependency order; all three working directories give the same logical circuit. (library) For "
        "every function of lib/math.facto: Signal arguments as declared inputs, int arguments as literals, boundary-biased over "
        "int32; oracle = the documented mathematical definition; argument tuples for which the documented formula overflows "
        "int32, divides by zero, uses a bit position outside 0..31, or has low > high are excluded and counted. Non-trivial: "
        "(imports) >= 2 files reached and a diamond, cycle or repeated import present; (library) a negative argument or a "
        "boundary value is involved. Distinct by (case text).")
ASSUMPTIONS = ["mod_positive is judged for positive divisors only (its documentation: 'like Python's % operator', 'always positive')"]


def budget(tier):
    return {"examples": 480 if tier == "quick" else 9000, "wall_s": 140 if tier == "quick" else 900}


LIB = {
    "abs": (("S",), lambda x: None if x == INT_MIN else abs(x)),
    "sign": (("S",), lambda x: (x > 0) - (x < 0)),
    "min": (("S", "S"), lambda a, b: min(a, b)),
    "max": (("S", "S"), lambda a, b: max(a, b)),
    "clamp": (("S", "i", "i"), lambda x, lo, hi: None if lo > hi else max(lo, min(hi, x))),
    "lerp": (("i", "i", "S"), lambda a, b, t: _lerp(a, b, t)),
    "between": (("S", "i", "i"), lambda x, lo, hi: 1 if lo <= x <= hi else 0),
    "get_bit": (("S", "p"), lambda v, p: (v >> p) & 1),
    "set_bit": (("S", "p"), lambda v, p: _w(v | (1 << p))),
    "clear_bit": (("S", "p"), lambda v, p: _w(v & ~(1 << p))),
    "toggle_bit": (("S", "p"), lambda v, p: _w(v ^ (1 << p))),
    "div_floor": (("S", "S"), lambda a, b: None if b == 0 or (a == INT_MIN and b == -1) else a // b),
    "mod_positive": (("S", "S"), lambda a, b: None if b <= 0 else a % b),
}


def _w(x):
    x &= 0xFFFFFFFF
    return x - (1 << 32) if x & (1 << 31) else x


def _in32(x):
    return INT_MIN <= x <= INT_MAX


def _lerp(a, b, t):
    d = b - a
    if not _in32(d) or not _in32(d * t):
        return None
    q = arith("/", d * t, 100)
    return a + q if _in32(a + q) else None


@st.composite
def library_case(draw):
    fn = draw(st.sampled_from(sorted(LIB)))
    kinds, _f = LIB[fn]
    args = []
    for k in kinds:
        if k == "p":
            args.append(draw(st.integers(0, 31)))
        elif k == "i":
            args.append(draw(st.one_of(st.integers(-20, 20), gen.int32(), st.integers(-1000, 1000))))
        else:
            args.append(draw(gen.int32()))
    return {"family": "library", "fn": fn, "args": args, "optimize": draw(st.integers(0, 3)) != 0}


@st.composite
def import_case(draw):
    n = draw(st.integers(2, 5))
    files = [f"m{i}" for i in range(n)]
    where = {f: draw(st.sampled_from(["same", "same", "sub", "path"])) for f in files}
    imports = {f: [] for f in files}
    shape = draw(st.sampled_from(["chain", "diamond", "cycle", "twice", "random"]))
    if shape == "chain":
        for i in range(n - 1):
            imports[files[i]].append(files[i + 1])
    elif shape == "diamond" and n >= 4:
        imports[files[0]] = [files[1], files[2]]
        imports[files[1]] = [files[3]]
        imports[files[2]] = [files[3]]
    elif shape == "cycle":
        for i in range(n):
            imports[files[i]].append(files[(i + 1) % n])
    elif shape == "twice":
        imports[files[0]] = [files[1], files[1]]
    else:
        for i in range(n):
            for j in range(n):
                if i != j and draw(st.integers(0, 3)) == 0:
                    imports[files[i]].append(files[j])
    funcs = {}
    for i, f in enumerate(files):
        k = draw(st.integers(1, 9))
        op = draw(st.sampled_from(["+", "*", "-", "XOR"]))
        funcs[f] = (f"fn_{f}", op, k)
    main_imports = [files[0]] + ([draw(st.sampled_from(files))] if draw(st.booleans()) else [])
    use_lib = draw(st.integers(0, 3)) == 0
    vals = draw(gen.valuations(["a", "b"], 2))
    return {"family": "imports", "files": files, "where": where, "imports": imports, "funcs": {k: list(v) for k, v in funcs.items()},
            "main_imports": main_imports, "use_lib": use_lib, "shape": shape, "vals": vals, "optimize": draw(st.integers(0, 3)) != 0}


@st.composite
def strategy_(draw, tier):
    if draw(st.integers(0, 3)) == 0:
        return draw(import_case())
    return draw(library_case())


def strategy(tier):
    return strategy_(tier)


def variants(case):
    if case["family"] == "library":
        for i, a in enumerate(case["args"]):
            for v in (0, 1, -1, a // 2):
                if v != a and abs(v) < abs(a):
                    args = list(case["args"])
                    args[i] = v
                    yield {**case, "args": args}
    else:
        if len(case["vals"]) > 1:
            yield {**case, "vals": case["vals"][:1]}


# ---- library -------------------------------------------------------------------------------------------------


def run_library(case):
    fn, args = case["fn"], case["args"]
    kinds, f = LIB[fn]
    want = f(*args)
    if want is None:
        return {"discard": "outside-documented-domain", "classes": ["fn:" + fn]}
    stmts = [Import("lib/math.facto")]
    call_args = []
    val = {}
    types = ["signal-A", "signal-B", "signal-C"]
    for i, (k, a) in enumerate(zip(kinds, args)):
        if k == "S":
            n = f"x{i}"
            stmts.append(Decl("Signal", n, SigLit(types[i], Num(0))))
            call_args.append(Ref(n))
            val[n] = a
        else:
            call_args.append(Num(a))
    stmts.append(Decl("Signal", "out", Call(fn, tuple(call_args))))
    prog = Program(tuple(stmts))
    text = prog.text()
    res = drive.compile_source(text, optimize=case.get("optimize", True), source_name="<string>")
    if not res.accepted:
        return {"failures": [{"sig": f"library:{fn}:refused", "detail": {"message": res.message[:300]}}], "sample": {"program": text}}
    try:
        circ = sim.load(res.bp)
        circ.reset()
        missing = obs.apply_inputs(circ, prog, val)
        if missing:
            return {"discard": "input-unlabelled"}
        if circ.settle() is None:
            return {"failures": [{"sig": f"library:{fn}:no-settle", "detail": {"args": args}}], "sample": {"program": text}}
        o = obs.observe(circ, "out")
        if o is None:
            return {"discard": "unlabelled"}
        got = o[1].get(o[0], 0)
    except Unmodelled:
        return {"discard": "unmodelled"}
    except sim.SimError as exc:
        return {"failures": [{"sig": "unexecutable-blueprint", "detail": str(exc)}], "sample": {"program": text}}
    fails = []
    if got != want:
        fails.append({"sig": f"library:{fn}:value", "detail": {"args": args, "want": want, "got": got}})
    boundary = any(a < 0 or a in (0, INT_MAX, INT_MIN, 1, -1) for a in args)
    return {"failures": fails, "nontrivial": boundary and not fails, "classes": ["fn:" + fn, "library"],
            "sample": {"call": f"{fn}({', '.join(map(str, args))})", "want": want, "got": got}}


# ---- imports -------------------------------------------------------------------------------------------------


def file_text(case, f):
    name, op, k = case["funcs"][f]
    lines = [f'import "{case["_paths"][g]}";' for g in case["imports"][f]]
    lines.append(f"func {name}(Signal s) {{")
    lines.append(f"    return s {op} {k};")
    lines.append("}")
    return "\n".join(lines) + "\n"


def run_imports(case):
    files = case["files"]
    td = tempfile.mkdtemp(prefix="fv17_")
    try:
        root = os.path.join(td, "proj")
        extra = os.path.join(td, "elsewhere")
        os.makedirs(os.path.join(root, "sub"))
        os.makedirs(extra)
        # import strings as seen from a file in proj/ (the importer's directory is searched first)
        paths = {}
        for f in files:
            w = case["where"][f]
            paths[f] = f"sub/{f}.facto" if w == "sub" else f"{f}.facto"
        case = {**case, "_paths": paths}
        for f in files:
            w = case["where"][f]
            d = os.path.join(root, "sub") if w == "sub" else extra if w == "path" else root
            # files in sub/ import relative to their own directory: give them plain names of files next to proj/
            txt = file_text(case, f)
            if w == "sub":
                txt = txt.replace('import "sub/', 'import "').replace('import "m', 'import "../m') if False else txt
            with open(os.path.join(d, f + ".facto"), "w") as fh:
                fh.write(txt)
        # reachable files in first-visit order (textual inclusion semantics: each file once, depth first)
        order, seen = [], set()

        def visit(f):
            if f in seen:
                return
            seen.add(f)
            for g in case["imports"][f]:
                visit(g)
            order.append(f)

        main_lines = []
        for f in case["main_imports"]:
            main_lines.append(f'import "{paths[f]}";')
        if case.get("use_lib"):
            main_lines.append('import "lib/math.facto";')
        body = ['Signal a = ("signal-A", 3);', 'Signal b = ("signal-B", 4);']
        for f in case["main_imports"]:
            visit(f)
        for i, f in enumerate(order):
            body.append(f"Signal r{i} = {case['funcs'][f][0]}({'a' if i % 2 == 0 else 'b'});")
        if case.get("use_lib"):
            body.append("Signal rl = abs(a);")
        main = "\n".join(main_lines + body) + "\n"
        with open(os.path.join(root, "main.facto"), "w") as fh:
            fh.write(main)
        # files in sub/ that import others cannot be resolved relative to sub/: give every directory a copy of the import path
        env = {"FACTORIO_IMPORT_PATH": ";".join([".", root, os.path.join(root, "sub"), extra, os.path.join(drive.REPO), os.path.join(drive.REPO, "lib")])}
        pasted = []
        for f in order:
            name, op, k = case["funcs"][f]
            pasted.append(f"func {name}(Signal s) {{\n    return s {op} {k};\n}}")
        twin_text = "\n".join(pasted + ([open(os.path.join(drive.REPO, "lib", "math.facto")).read()] if case.get("use_lib") else []) + body) + "\n"
        rt = drive.compile_source(twin_text, optimize=case.get("optimize", True))
        if not rt.accepted:
            return {"discard": "twin-refused", "message": rt.message}
        names = [f"r{i}" for i in range(len(order))] + (["rl"] if case.get("use_lib") else [])
        fails = []
        canons = []
        from .. import canon
        import json as _json

        for cwd in (drive.REPO, td, "/"):
            args = [os.path.join(root, "main.facto"), "--json"] + ([] if case.get("optimize", True) else ["--no-optimize"])
            try:
                code, so, se = drive.run_cli(args, entry="module", cwd=cwd, env_extra=env, timeout=120)
            except Exception as exc:  # noqa: BLE001 - a hang is a violation of 'terminates'
                fails.append({"sig": "imports:no-termination", "detail": {"cwd": cwd, "error": str(exc)[:200], "shape": case["shape"]}})
                break
            if code != 0:
                fails.append({"sig": f"imports:refused:{case['shape']}", "detail": {"cwd": cwd, "stderr": se[-400:], "main": main}})
                break
            try:
                bp = _json.loads(so[so.index("{"):])
            except Exception as exc:  # noqa: BLE001
                fails.append({"sig": "imports:undecodable", "detail": str(exc)})
                break
            canons.append((cwd, canon.canonical(bp, keep_description=False)))
            # behaviour equal to the pasted twin
            prog_stub = lang.Program((Decl("Signal", "a", SigLit("signal-A", Num(3))), Decl("Signal", "b", SigLit("signal-B", Num(4)))))
            ca, cb = sim.load(bp), sim.load(rt.bp)
            ra = twin.run_steps(ca, prog_stub, case["vals"], names, {"a": 3, "b": 4})
            rb = twin.run_steps(cb, prog_stub, case["vals"], names, {"a": 3, "b": 4})
            if ra == "input-unlabelled" or rb == "input-unlabelled":
                return {"discard": "input-unlabelled"}
            f = twin.compare(ra, rb, names, f"A=imported (cwd {cwd}) B=pasted")
            for x in f:
                x["sig"] = "imports:" + x["sig"]
            if f:
                fails += f[:1]
                break
        if len({_json.dumps(c, sort_keys=True) for _cwd, c in canons}) > 1:
            fails.append({"sig": "imports:result-depends-on-cwd", "detail": {"cwds": [c for c, _ in canons]}})
        uniq = {}
        for f in fails:
            uniq.setdefault(f["sig"], f)
        interesting = len(order) >= 2 and case["shape"] in ("diamond", "cycle", "twice", "random")
        return {"failures": list(uniq.values()), "nontrivial": interesting and not fails,
                "classes": ["imports", "shape:" + case["shape"]] + (["bundled-lib"] if case.get("use_lib") else []),
                "sample": {"main": main, "files": {f: file_text(case, f) for f in files[:3]}, "reached": order}}
    finally:
        shutil.rmtree(td, ignore_errors=True)


def run_case(case):
    if case["family"] == "library":
        return run_library(case)
    return run_imports(case)


assert known and Bin and Func and Return
