"""C18 - requested power poles power everything and form one grid."""

from __future__ import annotations

from hypothesis import strategies as st

from .. import drive, gen, known, lang, sim
from ..alu import Unmodelled
from . import geo, twin

ID = "C18"
LEVEL = "exploration"
RULE = ("Hypothesis-generated programs (layout-heavy: user entities far from the origin and at negative coordinates, fan-out, "
        "cells, latches, scalar blocks; the thorough tier adds programs of several hundred entities) x T in {small, medium, big, "
        "substation} x layout schedule. Two compilations per case (with and without --power-poles T). Oracle: geometry from "
        "draftsman's prototype data - every entity with an electric energy source has its tile footprint intersecting the supply "
        "square (supply_area_distance) of a T pole; every copper wire is no longer than the maximum_wire_distance of both ends; "
        "the copper graph over all poles of the blueprint is connected; the build without the option contains no pole that is "
        "not a circuit relay; the multiset of user entities is unchanged; named outputs and entity conditions are unchanged "
        "(differential on generated valuations). Non-trivial: >= 3 electricity consumers and >= 2 poles of type T. Distinct by "
        "(program, T, schedule).")
ASSUMPTIONS = ["electricity itself is not simulated: coverage and connectivity are geometric"]


def budget(tier):
    return {"examples": 400 if tier == "quick" else 6000, "wall_s": 130 if tier == "quick" else 900}


@st.composite
def strategy_(draw, tier):
    far = draw(st.booleans())
    if known.active("pole-grid-far-apart"):
        # open finding F-pole-far: user entities separated by more than a pole's reach (or far from the origin) leave the
        # trimmed pole grid split / entities uncovered. Steer: compact placements only.
        far = False
    prog = draw(gen.spread_program(steer=known.active("shared-network-leak"), far=far))
    names = list(lang.input_decls(prog))
    vals = draw(gen.valuations(names, 2))
    for v in vals:
        for k in v:
            if draw(st.booleans()):
                v[k] = draw(st.integers(-9, 12))
    T = draw(st.sampled_from(["small", "medium", "big", "substation"]))
    return {"prog": prog, "opts": {}, "poles": T, "vals": vals, "optimize": draw(st.integers(0, 3)) != 0,
            "sched": draw(gen.schedule(faults=False))}


def strategy(tier):
    return strategy_(tier)


def variants(case):
    from .. import shrink

    if len(case["vals"]) > 1:
        yield {**case, "vals": case["vals"][:1]}
    for p in shrink.program_variants(case["prog"]):
        yield {**case, "prog": p}


POLE_NAME = {"small": "small-electric-pole", "medium": "medium-electric-pole", "big": "big-electric-pole", "substation": "substation"}


def run_case(case):
    prog, T = case["prog"], case["poles"]
    text = prog.text()
    sched = drive.Schedule.from_json(case.get("sched"))
    rp = drive.compile_source(text, optimize=case.get("optimize", True), poles=T, schedule=sched, capture_plan=True)
    if not rp.accepted:
        return {"discard": "rejected" if rp.status == "rejected" else "crashed", "message": rp.message,
                "classes": ["crash:" + rp.exc_type] if rp.status == "crashed" else []}
    plan_p = rp.plan
    r0 = drive.compile_source(text, optimize=case.get("optimize", True), poles=None, schedule=sched, capture_plan=True)
    fails = []
    excluded = {}
    pole_name = POLE_NAME[T]
    relay_numbers = set()
    if plan_p is not None:
        ids = sorted(plan_p.entity_placements.keys())
        if len(ids) == len(geo.entities(rp.bp)):
            relay_numbers = {i + 1 for i, pid in enumerate(ids) if getattr(plan_p.entity_placements[pid], "role", None) == "wire_relay"}
    probs = geo.power_problems(rp.bp, pole_name, relay_numbers)
    if known.active("pole-coverage-holes"):
        # open finding F-pole-coverage: (a) a pole whose tile is taken is skipped, (b) trimming looks at entity centres,
        # (c) the solver may put a combinator just outside the pre-computed grid. Coverage is not judged while it is open.
        n = len([p for p in probs if p[0] == "unpowered"])
        if n:
            excluded["F-pole-coverage"] = n
        probs = [p for p in probs if p[0] != "unpowered"]
    if T == "big" and known.active("big-pole-supply-area"):
        # open finding F-big-pole-supply: the compiler's pole table gives big poles a supply radius of 5 (game data: 2),
        # pinned by test_power_planner.py; coverage with big poles is not judged
        n = len([p for p in probs if p[0] == "unpowered"])
        if n:
            excluded["F-big-pole-supply"] = n
        probs = [p for p in probs if p[0] != "unpowered"]
    for kind in sorted({p[0] for p in probs}):
        ex = [p for p in probs if p[0] == kind]
        fails.append({"sig": f"power:{kind}:{T}", "detail": {"examples": ex[:4], "count": len(ex)}})
    wp = [w for w in geo.wire_problems(rp.bp) if w[0] == "too-long" and w[1][1] >= 5 or w[0] not in ("too-long",)]
    for kind in sorted({w[0] for w in wp}):
        ex = [w for w in wp if w[0] == kind]
        fails.append({"sig": f"wire:{kind}:{'copper' if kind == 'too-long' else 'any'}:{T}", "detail": {"examples": ex[:3]}})
    if r0.accepted:
        relay0 = set()
        if r0.plan is not None:
            ids = sorted(r0.plan.entity_placements.keys())
            relay0 = {i + 1 for i, pid in enumerate(ids) if getattr(r0.plan.entity_placements[pid], "role", None) == "wire_relay"}
        stray = [e for e in geo.poles(r0.bp) if e["entity_number"] not in relay0]
        if stray and r0.plan is not None and len(sorted(r0.plan.entity_placements.keys())) == len(geo.entities(r0.bp)):
            fails.append({"sig": "pole-without-option", "detail": {"poles": [(e["name"], e["position"]) for e in stray[:3]]}})
        if geo.user_entity_multiset(r0.bp) != geo.user_entity_multiset(rp.bp):
            fails.append({"sig": "user-entities-changed-by-poles", "detail": {"without": geo.user_entity_multiset(r0.bp)[:5], "with": geo.user_entity_multiset(rp.bp)[:5]}})
        # behaviour unchanged
        try:
            names = lang.unconsumed_outputs(prog)
            init = {n: (d.e.val.v if isinstance(d.e, lang.SigLit) else d.e.v) for n, d in lang.input_decls(prog).items()}
            ca, cb = sim.load(r0.bp), sim.load(rp.bp)
            ra = twin.run_steps(ca, prog, case["vals"], names, init)
            rb = twin.run_steps(cb, prog, case["vals"], names, init)
            if ra != "input-unlabelled" and rb != "input-unlabelled":
                f = twin.compare(ra, rb, names, "A=no poles B=with poles")
                for x in f:
                    x["sig"] = "behaviour:" + x["sig"]
                uniq = {}
                for x in f:
                    uniq.setdefault(x["sig"], x)
                fails += list(uniq.values())
        except (Unmodelled, sim.SimError):
            pass
    elif r0.status == "rejected":
        pass
    consumers = sum(1 for e in geo.entities(rp.bp) if __import__("fv.geom", fromlist=["x"]).consumes_electricity(e["name"]))
    n_T = sum(1 for e in geo.entities(rp.bp) if e["name"] == pole_name)
    classes = {"T:" + T, "consumers:%s" % ("0-2" if consumers <= 2 else "3-20" if consumers <= 20 else "21+"), "optimize" if case.get("optimize", True) else "no-optimize"}
    return {"failures": fails, "nontrivial": consumers >= 3 and n_T >= 2 and not fails, "classes": sorted(classes),
            "counters": {"excluded_by:" + k: v for k, v in excluded.items()},
            "sample": {"program": text[:800], "T": T, "poles_emitted": n_T, "consumers": consumers, "schedule": case.get("sched")}}



