"""C19 - the same source always yields the same logical circuit."""

from __future__ import annotations

import json
import os
import tempfile

from hypothesis import strategies as st

from .. import canon, drive, gen, known, lang
from . import twin

ID = "C19"
LEVEL = "exploration"
RULE = ("Hypothesis-generated programs (scalar DAGs, bundles, entity programs - half of them without the shared-network steering -, "
        "gated cells, layout-heavy programs with relays, CSE bait, 'balanced loader' shapes whose sources enter two merges each) compiled several times under generated variations that must not matter: layout schedule (CP-SAT seed, worker "
        "count, deterministic time 0.001..0.5, injected strategy failures), a second compilation in the same process after an "
        "unrelated program, and - for a sampled subset and every balanced-loader case - fresh subprocesses of the real CLI with PYTHONHASHSEED in {0, 1, a "
        "generated value} and a different working directory. Oracle: equality of canonical forms (poles contracted; positions and "
        "numbering erased; entities labelled by prototype + full configuration + description, refined by 4 Weisfeiler-Lehman "
        "rounds over the network hypergraph; multiset of labels and of network signatures). Non-trivial: >= 3 combinators and the "
        "raw blueprints of two runs differ (positions / relays), so the canonicalisation had something to erase. Distinct by "
        "(program text, variations).")
ASSUMPTIONS = ["graph canonicalisation by WL refinement can only err toward 'equal'; inequality is a sound witness of difference",
               "machine load is substituted by controlled solver parameters"]


def budget(tier):
    return {"examples": 208 if tier == "quick" else 8000, "wall_s": 130 if tier == "quick" else 900}


@st.composite
def strategy_(draw, tier):
    steer = known.active("shared-network-leak")
    kind = draw(st.sampled_from(["scalar", "bundle", "entity", "memory", "spread", "spread", "cse", "balanced"]))
    if kind in ("bundle", "entity") and draw(st.booleans()):
        steer = False  # sameness of two compilations is judged whether or not the circuit is right
    if kind == "balanced":
        prog = draw(gen.balanced_program())
    elif kind == "scalar":
        prog = draw(gen.scalar_program(early_virtual=True, linear=steer, max_stmts=6))
    elif kind == "bundle":
        prog = draw(gen.bundle_program(steer=steer))
    elif kind == "entity":
        prog, _ = draw(gen.entity_program(steer=steer))
    elif kind == "memory":
        prog, _ = draw(gen.gated_memory_program(steer=steer))
    elif kind == "cse":
        prog = draw(gen.cse_program())
    else:
        prog = draw(gen.spread_program(steer=steer))
    other = draw(gen.scalar_program(early_virtual=True, linear=steer, max_stmts=3, max_depth=2))
    scheds = [draw(gen.schedule(faults=True)) for _ in range(2)]
    if tier == "quick":
        for sc in scheds:
            sc.pop("untouched", None)
    sub = draw(st.integers(0, 15 if tier == "quick" else 5)) == 0 or kind == "balanced"
    return {"kind": kind, "prog": prog, "other": other, "scheds": scheds, "optimize": draw(st.integers(0, 3)) != 0,
            "poles": draw(st.sampled_from([None, None, "medium"])), "subprocess": sub, "hashseed": draw(st.integers(2, 10**6))}


def strategy(tier):
    return strategy_(tier)


def variants(case):
    from .. import shrink

    if case.get("subprocess"):
        yield {**case, "subprocess": False}
    if case.get("poles"):
        yield {**case, "poles": None}
    for p in shrink.program_variants(case["prog"]):
        yield {**case, "prog": p}


def run_case(case):
    prog = case["prog"]
    text = prog.text()
    opt, poles = case.get("optimize", True), case.get("poles")
    builds = []
    labels = []
    base = drive.compile_source(text, optimize=opt, poles=poles, schedule=drive.Schedule())
    if not base.accepted:
        return {"discard": "rejected" if base.status == "rejected" else "crashed", "message": base.message}
    builds.append(base.bp)
    labels.append("default schedule")
    for s in case["scheds"]:
        r = drive.compile_source(text, optimize=opt, poles=poles, schedule=drive.Schedule.from_json(s))
        if r.accepted:
            builds.append(r.bp)
            labels.append("schedule %s" % json.dumps(s, sort_keys=True))
        elif r.status == "crashed":
            return {"failures": [{"sig": "crash-under-schedule", "detail": {"schedule": s, "message": r.message[:300]}}], "sample": {"program": text[:600]}}
    # second compile in the same process after an unrelated program
    drive.compile_source(case["other"].text(), optimize=opt, schedule=drive.Schedule())
    r = drive.compile_source(text, optimize=opt, poles=poles, schedule=drive.Schedule())
    if r.accepted:
        builds.append(r.bp)
        labels.append("after an unrelated compilation in the same process")
    classes = {case["kind"], "optimize" if opt else "no-optimize", "poles:" + str(poles)}
    if case.get("subprocess"):
        classes.add("subprocess")
        with tempfile.TemporaryDirectory(prefix="fv19_") as td:
            src = os.path.join(td, "prog.facto")
            with open(src, "w") as fh:
                fh.write(text)
            for hs, cwd in (("0", None), ("1", td), (str(case["hashseed"]), td)):
                args = [src, "--json"] + (["--no-optimize"] if not opt else []) + (["--power-poles", poles] if poles else [])
                code, so, se = drive.run_cli(args, entry="module", cwd=cwd, env_extra={"PYTHONHASHSEED": hs})
                if code != 0:
                    return {"failures": [{"sig": "cli-refuses-accepted-program", "detail": {"stderr": se[-300:], "hashseed": hs}}], "sample": {"program": text[:600]}}
                try:
                    builds.append(json.loads(so[so.index("{"):]))
                    labels.append(f"fresh process PYTHONHASHSEED={hs} cwd={'tmp' if cwd else 'repo'}")
                except Exception as exc:  # noqa: BLE001
                    return {"failures": [{"sig": "cli-output-undecodable", "detail": str(exc)}], "sample": {"program": text[:600]}}
    canons = [canon.canonical(b) for b in builds]
    fails = []
    for i in range(1, len(canons)):
        if canons[i] != canons[0]:
            fails.append({"sig": f"{case['kind']}:logical-circuit-differs", "detail": {
                "A": labels[0], "B": labels[i], "summary": canon.diff(canons[0], canons[i]), "configs": canon.describe_config_diff(builds[0], builds[i])}})
            break
    raw_differ = any(json.dumps(b, sort_keys=True) != json.dumps(builds[0], sort_keys=True) for b in builds[1:])
    ncomb = sum(1 for e in (builds[0].get("blueprint") or {}).get("entities", []) if "combinator" in e["name"])
    return {"failures": fails, "nontrivial": ncomb >= 3 and raw_differ and not fails, "classes": sorted(classes),
            "sample": {"program": text[:700], "runs": labels, "entities": len(canons[0]["entities"]), "networks": len(canons[0]["networks"])}}


assert lang and twin
