"""C20 - every named result is exposed and labelled."""

from __future__ import annotations

from hypothesis import strategies as st

from .. import gen, known, lang, obs, sim
from ..alu import Unmodelled
from ..lang import Decl, Program, Ref
from . import common

ID = "C20"
LEVEL = "exploration"
RULE = ("Hypothesis-generated programs from the scalar, CSE-bait, bundle, gated-memory and function domains, extended with alias "
        "declarations (`Signal y = x;`) of consumed and unconsumed names, optimisation on and off. Oracle, for every top-level "
        "Signal/Bundle name no other statement mentions: (1) some entity description carries the name together with the source "
        "line of its declaration (or of one of its aliases); (2) if the producer is not itself a constant combinator, exactly one "
        "entity labelled '<name> (output anchor)' exists, it is a constant combinator without signals, and the network at it "
        "reads the reference value on the result's own signal (whole member map for a bundle); (3) every declared input that the "
        "program uses has a constant combinator labelled '<input> (value=..)' holding its value. Non-trivial: the program has >= 1 "
        "unconsumed non-constant result and >= 1 consumed name. Distinct by (program text, options).")
ASSUMPTIONS = ["one statement per source line in printed programs, so the expected line of a declaration is known"]


def budget(tier):
    return {"examples": 1600 if tier == "quick" else 20000, "wall_s": 110 if tier == "quick" else 900}


@st.composite
def strategy_(draw, tier):
    steer = known.active("shared-network-leak")
    kind = draw(st.sampled_from(["scalar", "scalar", "cse", "bundle", "memory", "func"]))
    if kind == "scalar":
        prog = draw(gen.scalar_program(early_virtual=True, linear=steer, max_stmts=6))
    elif kind == "cse":
        prog = draw(gen.cse_program())
    elif kind == "bundle":
        prog = draw(gen.bundle_program(steer=steer, max_stmts=4))
    elif kind == "memory":
        prog, _ = draw(gen.gated_memory_program(steer=steer))
    else:
        prog, _b = draw(gen.func_case(steer=steer))
    # aliases of existing top-level signal names
    stmts = list(prog.stmts)
    sig_names = [s.name for s in stmts if isinstance(s, Decl) and s.kind in ("Signal", "Bundle")]
    kinds = {s.name: s.kind for s in stmts if isinstance(s, Decl)}
    unconsumed = set(lang.unconsumed_outputs(prog))
    for i in range(draw(st.integers(0, 2))):
        if not sig_names:
            break
        pool = [n for n in sig_names if n in unconsumed] or sig_names
        if steer and not [n for n in sig_names if n in unconsumed]:
            break
        src = draw(st.sampled_from(sorted(pool)))
        stmts.append(Decl(kinds[src], f"al{i + 1}", Ref(src)))
        unconsumed.discard(src)
        sig_names.append(f"al{i + 1}")
        kinds[f"al{i + 1}"] = kinds[src]
        unconsumed.add(f"al{i + 1}")
    return {"kind": kind, "prog": Program(tuple(stmts)), "opts": {}, "optimize": draw(st.booleans()), "sched": {"seed": draw(st.integers(0, 3))}}


def strategy(tier):
    return strategy_(tier)


def run_case(case):
    prog = case["prog"]
    if known.active("three-same-signal-sources") and lang.same_type_fanin(prog):
        # open finding F-three-same (C01): the values on the anchors of such a program are not the program's
        return {"discard": "excluded:F-three-same", "counters": {"excluded_by:F-three-same": 1}}
    text, res = common.compile_case(case)
    if not res.accepted:
        return common.reject_result(res)
    try:
        circ = sim.load(res.bp)
    except sim.SimError as exc:
        return {"failures": [{"sig": "unexecutable-blueprint", "detail": str(exc)}], "sample": {"program": text}}
    lines = lang.stmt_lines(prog)
    decl_line = {s.name: lines[i] for i, s in enumerate(prog.stmts) if isinstance(s, Decl)}
    alias_of = {}
    for s in prog.stmts:
        if isinstance(s, Decl):
            bare = s.e
            while isinstance(bare, lang.Paren) or (isinstance(bare, lang.Un) and bare.op == "+") or (
                    isinstance(bare, lang.Proj) and isinstance(bare.ty, lang.TypeOf) and isinstance(bare.e, Ref) and bare.ty.name == bare.e.name):
                bare = bare.e  # (x), +x and x | x.type are x itself
            if isinstance(bare, Ref):
                alias_of[s.name] = bare.name

    # names that are also declared inside a function or loop body (parameters, locals): only for these can an entity
    # labelled with the name belong to something else than the top-level declaration
    inner_names = set()

    def collect_inner(stmts):
        for st_ in stmts:
            if isinstance(st_, lang.Func):
                inner_names.update(n_ for _k, n_ in st_.params)
                inner_names.update(lang.declared_names(st_.body))
                collect_inner(st_.body)
            elif isinstance(st_, lang.For):
                inner_names.add(st_.var)
                inner_names.update(lang.declared_names(st_.body))
                collect_inner(st_.body)

    collect_inner(prog.stmts)

    # a member selected from a bundle is that member's own wire: every name bound to the same selection is one more
    # name of one value (the statement's "aliases of one value under several names"), with or without optimisation
    sel_key = {}
    for s in prog.stmts:
        if isinstance(s, Decl) and isinstance(s.e, lang.BSel) and isinstance(s.e.b, Ref) and isinstance(s.e.ty, str):
            sel_key[s.name] = (s.e.b.name, s.e.ty)

    def alias_group(n):
        root = n
        while root in alias_of:
            root = alias_of[root]
        grp = {m for m in decl_line if (lambda x: (x == root) or _root(x) == root)(m)}
        keys = {_root(b) for m in grp if m in sel_key for b, t in [sel_key[m]]}
        if keys:
            # the compiler reads a selected member straight off the bundle's wire: all selections of one bundle share
            # one producer, whose description can carry one line only
            same = {m for m, (b, t) in sel_key.items() if _root(b) in keys}
            grp |= {m for m in decl_line if _root(m) in same or m in same}
        return grp

    def _root(x):
        while x in alias_of:
            x = alias_of[x]
        return x

    mems = {s.name: lang.SigV(s.ty or lang.UNK, 0) for s in prog.stmts if isinstance(s, lang.MemDecl)}
    try:
        it = lang.Interp(prog, inputs={}, mems=mems)
        env = it.run()
    except Unmodelled:
        return {"discard": "unmodelled"}
    except lang.RefError:
        return {"discard": "ref-error"}
    # x | t with t the type x already has is x itself (one more name of the same wire)
    for s in prog.stmts:
        if isinstance(s, Decl) and s.name not in alias_of and isinstance(s.e, lang.Proj) and isinstance(s.e.e, Ref):
            src = env.get(s.e.e.name)
            tgt = s.e.ty
            if isinstance(tgt, lang.TypeOf):
                tv = env.get(tgt.name)
                tgt = tv.ty if isinstance(tv, lang.SigV) else None
            if isinstance(src, lang.SigV) and tgt is not None and src.ty == tgt and lang.known_type(tgt):
                alias_of[s.name] = s.e.e.name
    circ.reset()
    if circ.settle() is None:
        return {"discard": "no-settle"}
    outputs = lang.unconsumed_outputs(prog)
    fails = []
    kind = case.get("kind", "?")
    n_checked = 0
    excluded = {}
    decl_of = {s.name: s for s in prog.stmts if isinstance(s, Decl)}
    input_names = set(lang.input_decls(prog))

    def depends_on_input(n, seen=()):
        d = decl_of.get(n)
        if d is None or n in seen:
            return False
        if n in input_names:
            return True
        refs = lang.refs_in_expr(d.e)
        if any(isinstance(s, lang.MemDecl) and s.name in refs for s in prog.stmts):
            return True
        return any(depends_on_input(r, seen + (n,)) for r in refs)

    def resolved(e):
        while isinstance(e, Ref) and e.name in decl_of and isinstance(decl_of[e.name].e, Ref):
            e = decl_of[e.name].e
        return e

    CMP_OPS = {"<", ">", "<=", ">=", "==", "!="}

    ckey = lang.cse_key(prog)
    leak_shape = known.active("shared-network-leak") and lang.shared_source_shape(prog)

    def fold_ints(e):
        """2 % 3 + in1 is 2 + in1 once the integer sub-expression is folded (which happens before CSE)."""
        if isinstance(e, lang.Paren):
            return fold_ints(e.e)
        if isinstance(e, lang.Bin):
            l, r = fold_ints(e.l), fold_ints(e.r)
            if isinstance(l, lang.Num) and isinstance(r, lang.Num) and e.op in lang.ARITH_OPS:
                try:
                    from ..alu import arith as _arith

                    return lang.Num(_arith(e.op, l.v, r.v))
                except Exception:  # noqa: BLE001
                    pass
            return lang.Bin(e.op, l, r)
        if isinstance(e, lang.Num):
            return lang.Num(e.v)
        return e

    def cse_norm(e):
        """`(a > 5) : 1` is the decider `a > 5` itself (output constant 1): one combinator for CSE."""
        e = fold_ints(resolved(e))
        while isinstance(e, lang.Paren):
            e = e.e
        for _ in range(20):  # an alias of a name denotes that name's defining expression
            if isinstance(e, Ref) and e.name in decl_of and e.name not in input_names and not isinstance(decl_of[e.name].e, lang.Num):
                e = resolved(decl_of[e.name].e)
                while isinstance(e, lang.Paren):
                    e = e.e
            else:
                break
        e = fold_ints(e)
        if isinstance(e, lang.Cond) and isinstance(e.v, lang.Num) and e.v.v == 1:
            c = e.c
            while isinstance(c, lang.Paren):
                c = c.e
            if isinstance(c, lang.Bin) and c.op in CMP_OPS:
                return c
        return e

    # structural constancy is judged on the reference: same value under three unrelated valuations
    alt_envs = []
    for salt in (7, -13, 1001):
        try:
            alt_envs.append(lang.Interp(prog, inputs={n: salt * (i + 2) for i, n in enumerate(sorted(input_names))},
                                        mems={m: lang.SigV(v.ty, salt) for m, v in mems.items()}).run())
        except (Unmodelled, lang.RefError):
            pass

    def looks_constant(n):
        vals = {repr(e.get(n)) for e in alt_envs} | {repr(env.get(n))}
        return len(vals) == 1

    def subexprs(e, acc):
        acc.append(e)
        for c in lang.children(e):
            if not isinstance(c, str):
                subexprs(c, acc)
        return acc

    all_sub = []
    for s_ in prog.stmts:
        for e_ in lang.stmt_exprs(s_):
            for x in subexprs(e_, []):
                all_sub.append((getattr(s_, "name", None), x))

    def mirrors_input(n):
        """Through a call the result is just one of the declared inputs (same value under every valuation)."""
        d = decl_of.get(n)
        if d is None or not isinstance(d.e, lang.Call):
            return False
        for i in input_names:
            if all(isinstance(e.get(n), lang.SigV) and isinstance(e.get(i), lang.SigV) and e[n].v == e[i].v for e in alt_envs) and alt_envs:
                return True
        return False

    for name in outputs:
        if known.active("alias-relabels-input") and name in decl_of and isinstance(decl_of[name].e, lang.BLit) and len(
                decl_of[name].e.elems) == 1 and isinstance(decl_of[name].e.elems[0], Ref) and decl_of[name].e.elems[0].name in input_names:
            excluded["F-alias-relabel"] = excluded.get("F-alias-relabel", 0) + 1
            continue
        if known.active("bundle-alias-not-exposed") and name in decl_of and decl_of[name].kind == "Bundle" and isinstance(decl_of[name].e, Ref):
            excluded["F-bundle-alias"] = excluded.get("F-bundle-alias", 0) + 1
            continue
        if known.active("call-result-aliases-input") and (mirrors_input(name) or (
                name in decl_of and isinstance(decl_of[name].e, lang.Call) and any(isinstance(a, lang.Num) for a in decl_of[name].e.args))):
            excluded["F-call-alias"] = excluded.get("F-call-alias", 0) + 1
            continue
        if known.active("folded-constant-loses-name") and case.get("optimize", True) and mirrors_input(name):
            # open finding F-folded-name: a call whose body degenerates, after inlining and constant propagation, to a
            # copy of one of its arguments (const-true 'cond : value') is replaced by that argument's producer
            excluded["F-folded-name"] = excluded.get("F-folded-name", 0) + 1
            continue
        if known.active("folded-constant-loses-name") and name not in input_names and (not depends_on_input(name) or looks_constant(name)):
            # open finding F-folded-name: a value the IR optimiser folds to a constant is emitted as 'arith_N_folded'
            excluded["F-folded-name"] = excluded.get("F-folded-name", 0) + 1
            continue
        if known.active("cse-drops-name") and case.get("optimize", True) and name in decl_of and any(
                owner != name and not isinstance(x, (Ref, lang.Num)) and ckey(x) == ckey(decl_of[name].e) for owner, x in all_sub):
            # open finding F-cse-name: of two names bound to structurally equal expressions only one survives CSE
            excluded["F-cse-name"] = excluded.get("F-cse-name", 0) + 1
            continue
        group = alias_group(name)
        labelled = [e for e in circ.entities.values() if e.desc["name"] in group]
        anchors = [e for e in circ.entities.values() if e.desc["name"] == name and e.desc["op"] == "output anchor"]
        # a function- or loop-local may carry the same name as a top-level one: when some candidates sit on the lines of
        # this name's declarations, the others belong to the local and are left to it
        group_lines = {decl_line[g] for g in group}
        def elsewhere(e):
            return e.desc["line"] is not None and e.desc["line"] not in group_lines

        if name in inner_names and any(e.desc["line"] in group_lines for e in labelled) and any(elsewhere(e) for e in labelled):
            labelled = [e for e in labelled if not elsewhere(e)]
            anchors = [e for e in anchors if not elsewhere(e)]
        producers = [e for e in labelled if e.desc["op"] != "output anchor"]
        want = env.get(name)
        if not labelled:
            fails.append({"sig": f"{kind}:name-not-in-any-description", "detail": {"name": name, "value": repr(want)}})
            continue
        ok_line = any(e.desc["line"] in {decl_line[g] for g in group} for e in labelled)
        if isinstance(want, lang.BundleV) and not want.m and not [e for e in labelled if e.desc["op"] != "output anchor"]:
            ok_line = True  # an empty bundle has no producer that could carry a line
        if not ok_line and known.active("constant-description-without-line") and all(
                e.desc["line"] is None for e in labelled):
            excluded["F-const-line"] = excluded.get("F-const-line", 0) + 1
            ok_line = True
        if not ok_line:
            fails.append({"sig": f"{kind}:line-missing-or-wrong", "detail": {"name": name, "want_line": decl_line[name],
                                                                              "descriptions": [e.desc["raw"] for e in labelled][:4]}})
        const_producer = any(e.kind == "const" and e.const_signals() is not None and e.desc["name"] == name for e in producers)
        if not anchors:
            if not const_producer:
                fails.append({"sig": f"{kind}:no-anchor", "detail": {"name": name, "descriptions": [e.desc["raw"] for e in labelled][:4]}})
                continue
        elif len(anchors) > 1:
            fails.append({"sig": f"{kind}:several-anchors", "detail": {"name": name, "n": len(anchors)}})
            continue
        else:
            a = anchors[0]
            if a.kind != "const" or a.const_signals():
                fails.append({"sig": f"{kind}:anchor-not-empty-constant", "detail": {"name": name, "entity": a.name, "signals": a.const_signals()}})
        if leak_shape:
            excluded["F-leak"] = excluded.get("F-leak", 0) + 1  # the label is judged, the value on the anchor is not
            continue
        f, n, _u = common.compare_named_outputs(prog, circ, env, [name], label="labels", check_type=False, lines_of={name: group_lines})
        for x in f:
            x["sig"] = f"{kind}:anchor-{x['sig']}"
        fails += f
        n_checked += n
    used = lang.referenced_names(prog)
    for n, d in lang.input_decls(prog).items():
        if n not in used and n not in outputs:
            continue
        group = {m for m in decl_line if _root(m) == n or m == n}
        ents = [e for e in circ.entities.values() if e.kind == "const" and e.desc["name"] == n and e.desc["op"] and "value=" in e.desc["op"]]
        value = d.e.val.v if isinstance(d.e, lang.SigLit) else d.e.v
        if not ents and known.active("alias-relabels-input") and any(
                isinstance(s, Decl) and isinstance(s.e, lang.BLit) and len(s.e.elems) == 1 and s.e.elems[0] == Ref(n) for s in prog.stmts):
            excluded["F-alias-relabel"] = excluded.get("F-alias-relabel", 0) + 1
            continue
        if not ents:
            via_alias = [e for e in circ.entities.values() if e.kind == "const" and e.desc["name"] in group and e.desc["op"] and "value=" in e.desc["op"]]
            fails.append({"sig": f"{kind}:input-labelled-by-alias" if via_alias else f"{kind}:input-not-labelled",
                          "detail": {"input": n, "found": [e.desc["raw"] for e in via_alias][:3]}})
            continue
        if len(ents) > 1:
            # a function-local or loop-local constant may carry the same name: the input is the one on its declaration's line
            on_line = [e for e in ents if e.desc["line"] == decl_line.get(n)]
            ents = on_line or ents
        e = ents[0]
        if f"value={value} " not in (e.desc["op"] + " ") and f"value={value}" != e.desc["op"]:
            fails.append({"sig": f"{kind}:input-value-label", "detail": {"input": n, "label": e.desc["raw"], "value": value}})
        got = e.const_signals()
        if value != 0 and list(got.values()) != [lang.wrap(value)]:
            fails.append({"sig": f"{kind}:input-value", "detail": {"input": n, "signals": got, "value": value}})
    uniq = {}
    for f in fails:
        uniq.setdefault(f["sig"], f)
    consumed = [s.name for s in prog.stmts if isinstance(s, Decl) and s.name in used]
    nonconst = [n for n in outputs if not any(e.kind == "const" and e.desc["name"] == n and e.desc["op"] != "output anchor" for e in circ.entities.values())]
    classes = {kind, "optimize" if case.get("optimize", True) else "no-optimize"}
    if alias_of:
        classes.add("aliases")
    return {"failures": list(uniq.values()), "nontrivial": bool(nonconst) and bool(consumed) and not fails, "classes": sorted(classes),
            "counters": {"excluded_by:" + k: v for k, v in excluded.items()},
            "sample": {"program": text, "outputs": outputs, "descriptions": [e.desc["raw"] for e in circ.entities.values()][:10]}}
