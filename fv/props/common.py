"""Shared pieces of the behavioural oracles."""

from __future__ import annotations

from .. import drive, lang, obs, sim
from ..alu import Unmodelled


def compile_case(case, poles=None, capture_plan=False):
    text = case["prog"].text(**case.get("opts", {}))
    sched = drive.Schedule.from_json(case.get("sched"))
    res = drive.compile_source(text, optimize=case.get("optimize", True), poles=poles, schedule=sched,
                               capture_plan=capture_plan)
    return text, res


def reject_result(res):
    if res.status == "rejected":
        return {"discard": "rejected", "message": res.message}
    return {"discard": "crashed", "message": res.message, "classes": ["crash:" + res.exc_type]}


def compare_named_outputs(prog, circ, ref_env, names, label="", check_type=True, lines_of=None):
    """Compare every named output with the reference. Returns (failures, n_checked, unobservable)."""
    fails, checked, unobs = [], 0, []
    decls = {s.name: s for s in prog.stmts if isinstance(s, lang.Decl)}

    def shape(name):
        d = decls.get(name)
        if d is None:
            return "?"
        ops = sorted(lang.ops_in(d.e))
        return ",".join(ops)[:40] or "leaf"

    for name in names:
        want = ref_env.get(name)
        o = obs.observe(circ, name, (lines_of or {}).get(name))
        if o is None:
            unobs.append(name)
            continue
        adv, net, how = o
        if isinstance(want, lang.SigV):
            checked += 1
            if lang.known_type(want.ty) and (check_type or adv in ("bundle", None) or (adv or "").startswith("signal-e")):
                sig = want.ty
                if adv not in (sig, "bundle", None) and not (adv or "").startswith("signal-e"):
                    if want.v == 0:
                        # a zero value is carried on no signal at all: nothing to be mistyped; both names must read 0
                        if net.get(adv, 0) != 0 or net.get(sig, 0) != 0:
                            fails.append({"sig": f"value:{how}:{shape(name)}", "detail": {"name": name, "signal": adv, "want": 0,
                                                                                   "got": net.get(adv, 0) or net.get(sig, 0), "net": net, "label": label}})
                        continue
                    fails.append({"sig": f"type:{how}:{shape(name)}", "detail": {"name": name, "want_type": sig, "advertised": adv, "label": label}})
                    continue
            else:
                sig = adv
            got = net.get(sig, 0)
            if got != want.v:
                fails.append({"sig": f"value:{how}:{shape(name)}", "detail": {"name": name, "signal": sig, "want": want.v, "got": got,
                                                                 "net": net, "label": label}})
        elif isinstance(want, lang.BundleV):
            checked += 1
            if net != want.d():
                fails.append({"sig": f"bundle:{how}:{shape(name)}", "detail": {"name": name, "want": want.d(), "got": net, "label": label}})
    return fails, checked, unobs


def run_valuation(prog, circ, valuation, inputs_map, contents=None):
    """Reset, apply inputs, settle. Returns ticks or None."""
    circ.reset()
    missing = obs.apply_inputs(circ, prog, valuation, inputs_map)
    used = lang.referenced_names(prog)
    missing = [m for m in missing if m in used]
    return circ.settle(), missing


__all__ = ["compile_case", "reject_result", "compare_named_outputs", "run_valuation", "Unmodelled", "sim"]
