"""Geometric validity predicates over an emitted blueprint (C08, C09, C18)."""

from __future__ import annotations

import math

from .. import geom

COMBINATORS = ("arithmetic-combinator", "decider-combinator", "constant-combinator", "selector-combinator")


def entities(bp):
    return (bp.get("blueprint") or bp).get("entities") or []


def wires(bp):
    return (bp.get("blueprint") or bp).get("wires") or []


def pos(e):
    return (e["position"]["x"], e["position"]["y"])


def overlaps(bp):
    ents = entities(bp)
    boxes = [(e, geom.world_box(e["name"], pos(e), e.get("direction", 0))) for e in ents]
    boxes.sort(key=lambda t: t[1][0])
    bad = []
    for i, (e1, b1) in enumerate(boxes):
        for e2, b2 in boxes[i + 1:]:
            if b2[0] >= b1[2]:
                break
            if geom.boxes_intersect(b1, b2):
                bad.append((e1["entity_number"], e1["name"], pos(e1), e2["entity_number"], e2["name"], pos(e2)))
    return bad


def valid_connectors(name):
    if name in ("arithmetic-combinator", "decider-combinator", "selector-combinator"):
        return {1, 2, 3, 4}
    if geom.is_pole(name):
        return {1, 2, 5}
    if name == "power-switch":
        return {1, 2, 5, 6}
    return {1, 2}


def wire_problems(bp):
    by_num = {e["entity_number"]: e for e in entities(bp)}
    bad = []
    for w in wires(bp):
        if len(w) != 4:
            bad.append(("malformed", w))
            continue
        e1, c1, e2, c2 = w
        if e1 not in by_num or e2 not in by_num:
            bad.append(("missing-entity", w))
            continue
        a, b = by_num[e1], by_num[e2]
        if c1 not in valid_connectors(a["name"]) or c2 not in valid_connectors(b["name"]):
            bad.append(("no-such-connector", w, a["name"], b["name"]))
            continue

        def colour(c):
            return "red" if c in (1, 3) else "green" if c in (2, 4) else "copper"

        if colour(c1) != colour(c2):
            bad.append(("colour-mismatch", w))
            continue
        d = math.dist(pos(a), pos(b))
        if colour(c1) == "copper":
            reach = min(geom.copper_reach(a["name"]), geom.copper_reach(b["name"]))
        else:
            reach = min(geom.circuit_reach(a["name"]), geom.circuit_reach(b["name"]))
        if d > reach + 1e-9 and e1 != e2:
            bad.append(("too-long", w, a["name"], b["name"], round(d, 3), reach))
    return bad


def user_entity_multiset(bp, pole_type=None, relay_numbers=()):
    """(prototype, top-left tile, selected static properties) of everything that is not a combinator or a
    compiler pole."""
    out = []
    for e in entities(bp):
        n = e["name"]
        if n in COMBINATORS and e.get("player_description"):
            continue
        if e["entity_number"] in relay_numbers:
            continue
        if geom.is_pole(n):
            continue
        tl = geom.top_left_tile(n, pos(e), e.get("direction", 0))
        props = {}
        if "station" in e:
            props["station"] = e["station"]
        if e.get("direction", 0):
            props["direction"] = e["direction"]
        cb = e.get("control_behavior") or {}
        if e.get("always_on"):
            props["always_on"] = 1
        if cb.get("use_colors"):
            props["use_colors"] = 1
        if cb.get("color_mode"):
            props["color_mode"] = cb["color_mode"]
        out.append((n, tl[0], tl[1], tuple(sorted(props.items()))))
    return sorted(out)


def reference_multiset(interp_entities):
    out = []
    for pe in interp_entities:
        props = {}
        for k, v in pe.props:
            if k in ("station",):
                props[k] = v
            elif k == "direction" and v:
                props[k] = v
            elif k in ("always_on", "use_colors") and v:
                props[k] = 1
            elif k == "color_mode" and v:
                props[k] = v
        # a rotated 1x1 entity keeps its tile; multi-tile rotated prototypes are not generated
        out.append((pe.proto, float(pe.x), float(pe.y), tuple(sorted(props.items()))))
    return sorted(out)


def poles(bp):
    return [e for e in entities(bp) if geom.is_pole(e["name"])]


def power_problems(bp, pole_name, relay_numbers=()):
    """C18 geometry: coverage by poles of the requested type, copper reach, one electric network
    (circuit relay poles, which need no electricity, are left out of the connectivity requirement)."""
    ents = entities(bp)
    ps = [e for e in ents if geom.is_pole(e["name"]) and e["entity_number"] not in relay_numbers]
    typed = [e for e in ps if e["name"] == pole_name]
    bad = []
    r = geom.supply_radius(pole_name)
    areas = [(pos(p)[0] - r, pos(p)[1] - r, pos(p)[0] + r, pos(p)[1] + r) for p in typed]
    for e in ents:
        if not geom.consumes_electricity(e["name"]):
            continue
        w, h = geom.tile_size(e["name"], e.get("direction", 0))
        x, y = pos(e)
        box = (x - w / 2.0, y - h / 2.0, x + w / 2.0, y + h / 2.0)  # tile footprint
        if not any(geom.boxes_intersect(box, a) for a in areas):
            bad.append(("unpowered", e["entity_number"], e["name"], pos(e)))
    # copper graph over ALL poles: a relay pole conducts electricity like any other pole, so it may join two
    # parts of the grid; what is required is that the poles that are not relays end up in one network
    allp = [e for e in ents if geom.is_pole(e["name"])]
    parent = {p["entity_number"]: p["entity_number"] for p in allp}

    def find(x):
        while parent[x] != x:
            parent[x] = parent[parent[x]]
            x = parent[x]
        return x

    for w in wires(bp):
        if len(w) == 4 and w[1] in (5, 6) and w[0] in parent and w[2] in parent:
            parent[find(w[0])] = find(w[2])
    comps = {find(p["entity_number"]) for p in ps}
    if len(comps) > 1:
        bad.append(("grid-split", len(comps), len(ps)))
    return bad
