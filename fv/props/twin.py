"""Differential comparison of two builds (C10, C11, C12, C13, C15, C16, C17, C18)."""

from __future__ import annotations

from .. import drive, lang, obs, sim
from ..alu import Unmodelled

USER_KINDS_SKIP = ("medium-electric-pole", "small-electric-pole", "big-electric-pole", "substation")


def build(prog_or_text, opts=None, optimize=True, sched=None, poles=None, source_name="<string>"):
    text = prog_or_text if isinstance(prog_or_text, str) else prog_or_text.text(**(opts or {}))
    res = drive.compile_source(text, optimize=optimize, poles=poles, schedule=drive.Schedule.from_json(sched),
                               source_name=source_name)
    return text, res


def entity_key(e):
    return f"{e.name}@{e.pos[0]},{e.pos[1]}"


def observations(circ, names):
    """{name: (advertised signal, value on it | whole map for bundles)} + entity condition states."""
    out = {}
    for n in names:
        o = obs.observe(circ, n)
        if o is None:
            out["out:" + n] = None
            continue
        adv, net, how = o
        if adv in ("bundle", "signal-each", "signal-everything", None):
            out["out:" + n] = ("bundle", tuple(sorted(net.items())))
        else:
            out["out:" + n] = (adv, net.get(adv, 0))
    for e in circ.entities.values():
        if e.kind == "other" and e.name not in USER_KINDS_SKIP:
            try:
                out["ent:" + entity_key(e)] = circ.condition_state(e.num)
            except sim.SimError:
                out["ent:" + entity_key(e)] = "unmodelled"
    return out


def run_steps(circ, prog, steps, names, init=None, contents=None, settle_max=None):
    """Apply a list of valuations/steps; returns list of observation dicts (None where it did not settle)."""
    inputs_map = obs.input_combinators(circ)
    val = dict(init or {})
    res = []
    circ.reset()
    for st in steps:
        val.update(st)
        missing = obs.apply_inputs(circ, prog, val, inputs_map)
        used = lang.referenced_names(prog)
        if [m for m in missing if m in used]:
            return "input-unlabelled"
        if contents:
            for e in circ.entities.values():
                k = entity_key(e)
                if k in contents:
                    circ.set_contents(e.num, contents[k])
        try:
            t = circ.settle(settle_max)
            res.append(None if t is None else observations(circ, names))
        except Unmodelled:
            # this valuation leaves the modelled domain (negative exponent, shift count, ...): the step is not
            # judged, the remaining steps still are
            res.append("unmodelled")
            circ.reset()
    return res


def compare(resA, resB, names, label):
    fails = []
    for i, (a, b) in enumerate(zip(resA, resB)):
        if a == "unmodelled" or b == "unmodelled":
            continue
        if a is None or b is None:
            if (a is None) != (b is None):
                fails.append({"sig": "settle-differs", "detail": {"step": i, "A_settled": a is not None, "B_settled": b is not None, "label": label}})
            continue
        for k in sorted(set(a) | set(b)):
            va, vb = a.get(k), b.get(k)
            if k.startswith("out:") and k[4:] not in names:
                continue
            if va is None or vb is None:
                if k.startswith("ent:") and (va is None) != (vb is None):
                    fails.append({"sig": "entity-missing", "detail": {"key": k, "A": va, "B": vb, "label": label}})
                continue
            if k.startswith("out:"):
                # signal names may legitimately differ for untyped values; compare values
                if va[0] == "bundle" or vb[0] == "bundle":
                    if va != vb:
                        fails.append({"sig": "bundle-differs", "detail": {"key": k, "A": va, "B": vb, "step": i, "label": label}})
                elif va[1] != vb[1]:
                    fails.append({"sig": "value-differs", "detail": {"key": k, "A": va, "B": vb, "step": i, "label": label}})
            elif va != vb:
                fails.append({"sig": "entity-condition-differs", "detail": {"key": k, "A": va, "B": vb, "step": i, "label": label}})
    return fails


def twin_check(progA, progB, case, names, steps, init=None, contents=None, optimizeA=True, optimizeB=True,
               polesA=None, polesB=None, label=""):
    """Compile both, run the same steps, compare. Returns a run_case-style dict."""
    opts = case.get("opts", {})
    textA, ra = build(progA, opts, optimizeA, case.get("sched"), polesA)
    textB, rb = build(progB, opts, optimizeB, case.get("sched"), polesB)
    sample = {"A": textA, "B": textB if textB != textA else "(same source)"}
    if not ra.accepted and not rb.accepted:
        return {"discard": "rejected" if ra.status == "rejected" else "crashed", "message": ra.message}
    if ra.accepted != rb.accepted:
        bad = rb if ra.accepted else ra
        if "[layout_planning]" in (bad.message or ""):
            # the placement search gave up inside its (harness-owned) time budget: inconclusive, not a verdict on the program
            return {"discard": "layout-not-found", "message": bad.message[:200]}
        return {"one_sided": True, "failures": [{"sig": "one-sided-" + bad.status, "detail": {"message": bad.message[:300], "which": "B" if ra.accepted else "A"}}],
                "sample": sample}
    try:
        ca, cb = sim.load(ra.bp), sim.load(rb.bp)
        resA = run_steps(ca, progA, steps, names, init, contents)
        resB = run_steps(cb, progB, steps, names, init, contents)
    except Unmodelled:
        return {"discard": "unmodelled"}
    except sim.SimError as exc:
        return {"failures": [{"sig": "unexecutable-blueprint", "detail": str(exc)}], "sample": sample}
    if resA == "input-unlabelled" or resB == "input-unlabelled":
        return {"discard": "input-unlabelled"}
    fails = compare(resA, resB, names, label)
    uniq = {}
    for f in fails:
        uniq.setdefault(f["sig"], f)
    differing = len({repr(r) for r in resA if r is not None and r != "unmodelled"}) > 1
    return {"failures": list(uniq.values()), "varies": differing, "sample": sample, "circA": ca, "circB": cb,
            "obsA": resA}


def anchor_multiset(circ, skip=()):
    """Name-agnostic view: sorted list of (advertised signal class, value) of every output anchor,
    plus user entities with their condition state."""
    anchors = []
    for e in circ.entities.values():
        if e.desc["op"] == "output anchor":
            if e.desc["name"] in skip:
                continue
            net = circ.read_input(e.num)
            adv = e.desc["signal"]
            if adv in ("bundle", "signal-each", "signal-everything", None):
                anchors.append(("bundle", tuple(sorted(net.items()))))
            else:
                anchors.append(("scalar", net.get(adv, 0)))
    ents = {}
    for e in circ.entities.values():
        if e.kind == "other" and e.name not in USER_KINDS_SKIP:
            try:
                ents[entity_key(e)] = circ.condition_state(e.num)
            except sim.SimError:
                ents[entity_key(e)] = "unmodelled"
    return sorted(anchors, key=repr), ents


def agnostic_twin(progA, progB, case, steps, init, optimize=True, skipA=(), skipB=()):
    textA, ra = build(progA, case.get("opts", {}), optimize, case.get("sched"))
    textB, rb = build(progB, case.get("opts", {}), optimize, case.get("sched"))
    sample = {"A": textA, "B": textB}
    if not ra.accepted and not rb.accepted:
        return {"discard": "rejected" if ra.status == "rejected" else "crashed", "message": ra.message}
    if ra.accepted != rb.accepted:
        bad = rb if ra.accepted else ra
        if "[layout_planning]" in (bad.message or ""):
            return {"discard": "layout-not-found", "message": bad.message[:200]}
        return {"failures": [{"sig": "one-sided-" + bad.status, "detail": {"message": bad.message[:300], "which": "B" if ra.accepted else "A"}}],
                "sample": sample}
    fails = []
    varies = set()
    try:
        ca, cb = sim.load(ra.bp), sim.load(rb.bp)
        ima, imb = obs.input_combinators(ca), obs.input_combinators(cb)
        val = dict(init)
        for i, stp in enumerate(steps):
            val.update(stp)
            res = []
            for c, p, im, skip in ((ca, progA, ima, skipA), (cb, progB, imb, skipB)):
                c.reset()
                missing = obs.apply_inputs(c, p, val, im)
                if [m for m in missing if m in lang.referenced_names(p)]:
                    return {"discard": "input-unlabelled"}
                t = c.settle()
                res.append(None if t is None else anchor_multiset(c, skip))
            a, b = res
            if a is None or b is None:
                if (a is None) != (b is None):
                    fails.append({"sig": "settle-differs", "detail": {"step": i}})
                continue
            varies.add(repr(a))
            if a[0] != b[0]:
                fails.append({"sig": "anchors-differ", "detail": {"A": a[0], "B": b[0], "valuation": dict(val)}})
            if set(a[1]) != set(b[1]):
                fails.append({"sig": "user-entities-differ", "detail": {"only_A": sorted(set(a[1]) - set(b[1])), "only_B": sorted(set(b[1]) - set(a[1]))}})
            else:
                for k in a[1]:
                    if a[1][k] != b[1][k]:
                        fails.append({"sig": "entity-condition-differs", "detail": {"key": k, "A": a[1][k], "B": b[1][k], "valuation": dict(val)}})
                        break
    except Unmodelled:
        return {"discard": "unmodelled"}
    except sim.SimError as exc:
        return {"failures": [{"sig": "unexecutable-blueprint", "detail": str(exc)}], "sample": sample}
    uniq = {}
    for f in fails:
        uniq.setdefault(f["sig"], f)
    return {"failures": list(uniq.values()), "varies": len(varies) > 1, "sample": sample, "circA": ca, "circB": cb}
