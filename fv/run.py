"""Runner: shards a property's Hypothesis search over worker processes, collects failures
instead of stopping at the first, minimises one case per failure signature, applies the
known-findings protocol, writes replay files and the evidence file.

usage: python -m fv.run <ID> [--tier quick|thorough] [--replay FILE] [--workers N] [--examples N]

exit 0: property held on everything explored (KNOWN-FINDING lines may be printed)
exit 1: VIOLATION property=<ID> replay=<path>
exit 2: harness error (never a verdict)
"""

from __future__ import annotations

import argparse
import hashlib
import importlib
import json
import os
import sys
import time
import traceback

ROOT = os.path.dirname(os.path.dirname(os.path.abspath(__file__)))
os.environ.setdefault("PYTHONHASHSEED", "0")


def _prop_module(pid: str):
    return importlib.import_module(f"fv.props.{pid.lower()}")


def case_key(obj) -> str:
    return hashlib.sha1(json.dumps(obj, sort_keys=True, default=str).encode()).hexdigest()[:16]


# ------------------------------------------------------------------------------------------
# Worker
# ------------------------------------------------------------------------------------------


def worker(args):
    pid, tier, seed, n_examples, wall_budget, disabled_triggers = args
    t0 = time.time()
    if os.environ.get("FV_TEST_ABORT_WORKER") == str(seed % 1000):
        os.abort()  # self-test of the runner: a worker that dies natively must cost its own slice only
    out = {
        "evaluations": 0, "discarded": {}, "rejected": {}, "classes": {}, "nontrivial_keys": [],
        "failures": [], "samples": [], "error": None, "budget_skipped": 0, "counters": {},
    }
    try:
        import hypothesis
        from hypothesis import HealthCheck, Phase, given, seed as hseed, settings

        from . import known, ser

        known.set_disabled(disabled_triggers)
        mod = _prop_module(pid)
        strat = mod.strategy(tier)
        nontrivial = set()
        seen_sigs: dict[str, int] = {}

        @hseed(seed)
        @settings(
            max_examples=n_examples, database=None, deadline=None, derandomize=False,
            report_multiple_bugs=False, suppress_health_check=list(HealthCheck),
            phases=[Phase.generate], verbosity=hypothesis.Verbosity.quiet,
        )
        @given(strat)
        def body(case):
            if time.time() - t0 > wall_budget:
                out["budget_skipped"] += 1
                return
            res = mod.run_case(case)
            out["evaluations"] += 1
            for c in res.get("classes", ()):
                out["classes"][c] = out["classes"].get(c, 0) + 1
            for k, v in res.get("counters", {}).items():
                out["counters"][k] = out["counters"].get(k, 0) + v
            if res.get("discard"):
                d = res["discard"]
                out["discarded"][d] = out["discarded"].get(d, 0) + 1
                if d == "rejected":
                    m = res.get("message", "")[:90]
                    out["rejected"][m] = out["rejected"].get(m, 0) + 1
                return
            if res.get("nontrivial"):
                nontrivial.add(res.get("key") or case_key(ser.enc(case)))
            if res.get("sample") is not None and len(out["samples"]) < 3 and (res.get("nontrivial") or not out["samples"]):
                out["samples"].append(res["sample"])
            for f in res.get("failures", ()):
                n = seen_sigs.get(f["sig"], 0)
                seen_sigs[f["sig"]] = n + 1
                if n < 3:
                    out["failures"].append({"sig": f["sig"], "detail": f.get("detail"), "case": ser.enc(case)})

        body()
        out["nontrivial_keys"] = sorted(nontrivial)
        out["sig_counts"] = seen_sigs
        try:
            from . import drive

            out["fault_injection_unavailable"] = drive.fault_injection_unavailable()
        except Exception:  # noqa: BLE001
            pass
    except BaseException as exc:  # noqa: BLE001
        out["error"] = f"{type(exc).__name__}: {exc}\n{traceback.format_exc()}"
    out["wall_s"] = time.time() - t0
    return out


def _worker_entry(job, conn):
    try:
        conn.send(worker(job))
    finally:
        conn.close()


def run_workers(jobs, wall):
    """One process per job; a process that dies (the CP-SAT solver can abort the interpreter) or overstays
    costs its own slice only. Returns (results of the reporting workers, exit codes of the others)."""
    import multiprocessing as mp

    ctx = mp.get_context("spawn")
    procs = []
    for job in jobs:
        rx, tx = ctx.Pipe(duplex=False)
        p = ctx.Process(target=_worker_entry, args=(job, tx), daemon=True)
        p.start()
        tx.close()
        procs.append((p, rx))
    hard_deadline = time.time() + wall + 900
    results, died = [], []
    pending = list(procs)
    while pending:
        progressed = False
        for item in list(pending):
            p, rx = item
            got = None
            try:
                if rx.poll(0):
                    got = rx.recv()
            except (EOFError, OSError):
                got = None
                if not p.is_alive():
                    pending.remove(item)
                    died.append(p.exitcode)
                    progressed = True
                    continue
            if got is not None:
                results.append(got)
                pending.remove(item)
                progressed = True
                p.join(10)
                continue
            if not p.is_alive():
                try:
                    if rx.poll(0.2):
                        results.append(rx.recv())
                    else:
                        died.append(p.exitcode)
                except (EOFError, OSError):
                    died.append(p.exitcode)
                pending.remove(item)
                progressed = True
            elif time.time() > hard_deadline:
                p.terminate()
                p.join(5)
                died.append("timeout")
                pending.remove(item)
                progressed = True
        if not progressed:
            time.sleep(0.2)
    return results, died


# ------------------------------------------------------------------------------------------
# Minimisation (own bounded delta debugging; Hypothesis' shrinker is not used, DESIGN 2.3)
# ------------------------------------------------------------------------------------------


def still_fails(mod, case, sig) -> bool:
    try:
        res = mod.run_case(case)
    except Exception:  # noqa: BLE001
        return False
    return any(f["sig"] == sig for f in res.get("failures", ()))


def minimise(mod, case, sig, budget_s: float):
    from . import shrink

    t0 = time.time()
    cur = case
    improved = True
    steps = 0
    variants = getattr(mod, "variants", None) or shrink.variants
    while improved and time.time() - t0 < budget_s:
        improved = False
        for cand in variants(cur):
            if time.time() - t0 > budget_s:
                break
            steps += 1
            if still_fails(mod, cand, sig):
                cur = cand
                improved = True
                break
    return cur, steps


# ------------------------------------------------------------------------------------------
# Main
# ------------------------------------------------------------------------------------------


def load_known(pid):
    path = os.path.join(ROOT, "known_findings.json")
    if not os.path.exists(path):
        return []
    with open(path) as fh:
        data = json.load(fh)
    return [e for e in data.get("findings", []) if e.get("property") == pid]


def replay_file(mod, path):
    from . import ser

    with open(path) as fh:
        rep = json.load(fh)
    case = ser.dec(rep["case"])
    res = mod.run_case(case)
    return rep, case, res


def write_replay(pid, sig, case_enc, detail, extra=None):
    os.makedirs(os.path.join(ROOT, "replays"), exist_ok=True)
    h = hashlib.sha1((sig + json.dumps(case_enc, sort_keys=True)).encode()).hexdigest()[:10]
    path = os.path.join("replays", f"{pid}-{h}.json")
    doc = {"property": pid, "sig": sig, "detail": detail, "case": case_enc}
    if extra:
        doc.update(extra)
    with open(os.path.join(ROOT, path), "w") as fh:
        json.dump(doc, fh, indent=1, sort_keys=True, default=str)
    return path


def main(argv=None):
    ap = argparse.ArgumentParser()
    ap.add_argument("pid")
    ap.add_argument("--tier", default=os.environ.get("VERIF_TIER", "quick"))
    ap.add_argument("--replay")
    ap.add_argument("--workers", type=int, default=int(os.environ.get("FV_WORKERS", "16")))
    ap.add_argument("--examples", type=int)
    ap.add_argument("--no-evidence", action="store_true")
    a = ap.parse_args(argv)
    pid = a.pid.upper()
    tier = a.tier if a.tier in ("quick", "thorough") else "quick"
    seed = int(os.environ.get("VERIF_SEED", "1") or 1)
    os.chdir(ROOT)
    t0 = time.time()
    try:
        sys.path.insert(0, ROOT)
        mod = _prop_module(pid)
        from . import known, ser
    except Exception:  # noqa: BLE001
        traceback.print_exc()
        return 2

    if a.replay:
        try:
            rep, case, res = replay_file(mod, a.replay)
        except Exception:  # noqa: BLE001
            traceback.print_exc()
            return 2
        fails = res.get("failures", [])
        if fails:
            for f in fails:
                print(f"  failure sig={f['sig']} detail={json.dumps(f.get('detail'), default=str)[:400]}")
            print(f"VIOLATION property={pid} replay={a.replay}")
            return 1
        print(f"replay passed ({res.get('discard') or 'ok'})")
        return 0

    violations: list[str] = []
    known_lines: list[str] = []
    disabled_triggers: list[str] = []
    witness_info = []
    # -- 1. witnesses of known / fixed findings ------------------------------------------
    try:
        known.strict(True)
        for ent in load_known(pid):
            wpath = ent.get("witness")
            if not wpath:
                continue
            rep, case, res = replay_file(mod, os.path.join(ROOT, wpath))
            sigs = [f["sig"] for f in res.get("failures", [])]
            if ent.get("status") == "open":
                if rep["sig"] in sigs:
                    known_lines.append(f"KNOWN-FINDING: property={pid} {ent['what']}")
                    others = [s for s in sigs if s != rep["sig"] and s not in ent.get("also", [])]
                    if others:
                        p = write_replay(pid, others[0], rep["case"], "witness fails with a different observation")
                        violations.append(p)
                elif sigs and not set(sigs) <= set(ent.get("also", [])):
                    p = write_replay(pid, sigs[0], rep["case"], "witness fails with a different observation")
                    violations.append(p)
                else:
                    print(f"KNOWN-FINDING-NOT-REPRODUCED: property={pid} {ent['id']} (trigger re-enabled for this run)")
                    if ent.get("trigger"):
                        disabled_triggers.append(ent["trigger"])
                witness_info.append({"id": ent["id"], "status": "open", "reproduced": rep["sig"] in sigs})
            else:  # fixed: plain regression case, suppresses nothing
                # ('also' names observations of the same case that belong to another, open, finding of the property)
                sigs = [s_ for s_ in sigs if s_ not in ent.get("also", [])]
                if sigs:
                    p = write_replay(pid, sigs[0], rep["case"], f"regression of fixed finding {ent['id']}")
                    violations.append(p)
                witness_info.append({"id": ent["id"], "status": "fixed", "passes": not sigs})
    except Exception:  # noqa: BLE001
        traceback.print_exc()
        return 2
    finally:
        known.strict(False)
    known.set_disabled(disabled_triggers)

    # -- 2. search ------------------------------------------------------------------------
    budget = mod.budget(tier)
    total = a.examples or budget["examples"]
    workers = max(1, min(a.workers, total))
    per = max(1, total // workers)
    wall = budget.get("wall_s", 600)
    jobs = [(pid, tier, seed * 1000 + i, per, wall, disabled_triggers) for i in range(workers)]
    results, died = run_workers(jobs, wall)
    if died:
        # a worker process ended without reporting (native abort inside the layout solver, kill): its slice is lost, the
        # run is not a verdict on anything it was doing - recorded, never a violation
        print(f"NOTE: {len(died)} of {workers} worker processes ended without reporting (exit codes {sorted(set(died))}); their cases are not counted")
    errs = [r["error"] for r in results if r["error"]]
    if errs:
        print("HARNESS ERROR in worker:\n" + errs[0], file=sys.stderr)
        return 2

    def merge(key):
        m: dict = {}
        for r in results:
            for k, v in r.get(key, {}).items():
                m[k] = m.get(k, 0) + v
        return m

    evaluations = sum(r["evaluations"] for r in results)
    nontrivial = set()
    for r in results:
        nontrivial.update(r["nontrivial_keys"])
    discarded, rejected, classes, counters = merge("discarded"), merge("rejected"), merge("classes"), merge("counters")
    sig_counts = merge("sig_counts")
    samples = [s for r in results for s in r["samples"]][:5]
    budget_skipped = sum(r["budget_skipped"] for r in results)

    n_rej = discarded.get("rejected", 0)
    if evaluations and n_rej / evaluations > 0.30:
        print(f"GENERATOR-HEALTH: {n_rej}/{evaluations} generated programs were refused by the compiler")

    # -- 3. triage of failures: confirm, minimise, report ---------------------------------
    by_sig: dict[str, list] = {}
    for r in results:
        for f in r["failures"]:
            by_sig.setdefault(f["sig"], []).append(f)
    unreproduced = 0
    min_budget = 60 if tier == "quick" else 300
    per_sig_budget = max(10, min_budget / max(1, len(by_sig)))
    for sig in sorted(by_sig):
        f = by_sig[sig][0]
        case = ser.dec(f["case"])
        ok = False
        for _ in range(3):
            if still_fails(mod, case, sig):
                ok = True
                break
        if not ok:
            unreproduced += 1
            print(f"WARNING: failure {sig} did not reproduce from its serialised case; not reported")
            continue
        small, steps = minimise(mod, case, sig, per_sig_budget)
        res = mod.run_case(small)
        detail = next((x.get("detail") for x in res.get("failures", []) if x["sig"] == sig), f.get("detail"))
        p = write_replay(pid, sig, ser.enc(small), detail, {"count_in_run": sig_counts.get(sig, 0), "shrink_steps": steps})
        violations.append(p)

    wall_s = time.time() - t0
    # -- 4. evidence ----------------------------------------------------------------------
    if not a.no_evidence:
        cov = {
            "evaluations": evaluations,
            "distinct_nontrivial": len(nontrivial),
            "rule": mod.RULE,
            "samples": samples if samples else [{"note": "no accepted case produced a sample"}],
            "classes": dict(sorted(classes.items())),
            "counters": dict(sorted(counters.items())),
            "discarded": discarded,
            "rejected_messages": dict(sorted(rejected.items(), key=lambda kv: -kv[1])[:12]),
            "excluded_by": {k[len("excluded_by:"):]: v for k, v in counters.items() if k.startswith("excluded_by:")},
            "unreproduced": unreproduced,
            "workers_lost": [str(x) for x in died],
            "budget_skipped": budget_skipped,
            "failure_signatures": sig_counts,
            "known_findings": witness_info,
            "workers": workers,
            "examples_requested": per * workers,
            "fault_injection_unavailable": sorted({x for r in results for x in r.get("fault_injection_unavailable", [])}),
        }
        ev = {
            "property_id": pid, "tier": tier, "seed": seed, "level": mod.LEVEL, "coverage": cov,
            "assumptions": list(getattr(mod, "ASSUMPTIONS", [])) + known.COMMON_ASSUMPTIONS,
            "wall_s": round(wall_s, 2), "violations": len(violations),
        }
        os.makedirs(os.path.join(ROOT, "evidence"), exist_ok=True)
        with open(os.path.join(ROOT, "evidence", f"{pid}.json"), "w") as fh:
            json.dump(ev, fh, indent=1, sort_keys=True, default=str)

    for ln in known_lines:
        print(ln)
    print(f"{pid} {tier}: evaluations={evaluations} nontrivial={len(nontrivial)} discarded={discarded} "
          f"failure_signatures={len(by_sig)} wall={wall_s:.1f}s")
    if violations:
        for p in violations:
            print(f"VIOLATION property={pid} replay={p}")
        return 1
    return 0


if __name__ == "__main__":
    sys.exit(main())
