"""Self-tests of the trusted base (run by MANIFEST.setup_cmd): ALU boundary values, hand-written blueprints
with known behaviour, blueprint defaults cross-checked against draftsman's own 2.0 export."""

from __future__ import annotations

import sys

from . import sim
from .alu import INT_MAX, INT_MIN, arith, wrap


def sig(n, t="virtual"):
    return {"type": t, "name": n}


def const(num, sigs, x=0.5, y=0.5):
    return {"entity_number": num, "name": "constant-combinator", "position": {"x": x, "y": y},
            "control_behavior": {"sections": {"sections": [{"index": 1, "filters": [
                {"index": i + 1, "name": n, "type": "virtual", "quality": "normal", "comparator": "=", "count": v}
                for i, (n, v) in enumerate(sigs.items())]}]}}}


def arithc(num, **c):
    return {"entity_number": num, "name": "arithmetic-combinator", "position": {"x": num, "y": 3}, "control_behavior": {"arithmetic_conditions": c}}


def decider(num, conditions, outputs):
    return {"entity_number": num, "name": "decider-combinator", "position": {"x": num, "y": 6},
            "control_behavior": {"decider_conditions": {"conditions": conditions, "outputs": outputs}}}


def bp(entities, wires):
    return {"blueprint": {"entities": entities, "wires": wires}}


def check(cond, msg):
    if not cond:
        print("SELFTEST FAILED:", msg)
        sys.exit(1)


def main():
    # ALU
    check(arith("+", INT_MAX, 1) == INT_MIN, "wrap +")
    check(arith("*", 65536, 65536) == 0, "wrap *")
    check(arith("/", -7, 2) == -3 and arith("/", 7, -2) == -3 and arith("/", 5, 0) == 0, "trunc division")
    check(arith("%", -7, 3) == -1 and arith("%", 7, -3) == 1 and arith("%", 5, 0) == 0, "remainder sign")
    check(arith(">>", -8, 1) == -4 and arith("<<", 1, 31) == INT_MIN, "shifts")
    check(arith("**", 3, 4) == 81 and arith("**", 2, 31) == INT_MIN and arith("**", 7, 0) == 1, "power")
    check(arith("AND", -1, 255) == 255 and arith("XOR", -1, 0) == -1 and wrap(1 << 32) == 0, "bitwise")
    # counter: one arithmetic combinator with self feedback on red: x(t+1) = x(t) + 1
    c = sim.load(bp([arithc(1, first_signal=sig("signal-A"), operation="+", second_constant=1, output_signal=sig("signal-A"))],
                    [[1, 3, 1, 1]]))
    for _ in range(5):
        c.step()
    check(c.entities[1].out == {"signal-A": 5}, "self-feedback counter counts one per tick")
    # red / green separation and default operation '*'
    c = sim.load(bp([const(1, {"signal-A": 6}), const(2, {"signal-A": 7}),
                     arithc(3, first_signal=sig("signal-A"), first_signal_networks={"green": False},
                            second_signal=sig("signal-A"), second_signal_networks={"red": False}, output_signal=sig("signal-B"))],
                    [[1, 1, 3, 1], [2, 2, 3, 2]]))
    c.settle()
    check(c.entities[3].out == {"signal-B": 42}, "red/green operand selection, default operation is *")
    # both networks summed when not restricted
    c = sim.load(bp([const(1, {"signal-A": 6}), const(2, {"signal-A": 7}),
                     arithc(3, first_signal=sig("signal-A"), operation="+", second_constant=0, output_signal=sig("signal-B"))],
                    [[1, 1, 3, 1], [2, 2, 3, 2]]))
    c.settle()
    check(c.entities[3].out == {"signal-B": 13}, "unrestricted operand reads red+green")
    # each arithmetic
    c = sim.load(bp([const(1, {"signal-A": 2, "signal-B": -3}), arithc(2, first_signal=sig("signal-each"), operation="*", second_constant=5,
                                                                       output_signal=sig("signal-each"))], [[1, 1, 2, 1]]))
    c.settle()
    check(c.entities[2].out == {"signal-A": 10, "signal-B": -15}, "each arithmetic")
    # decider: default comparator '<', copy_count default true, constant output
    c = sim.load(bp([const(1, {"signal-A": 2, "signal-B": 9}),
                     decider(2, [{"first_signal": sig("signal-A"), "constant": 5}], [{"signal": sig("signal-B")}]),
                     decider(3, [{"first_signal": sig("signal-A"), "comparator": ">", "constant": 5}], [{"signal": sig("signal-B")}]),
                     decider(4, [{"first_signal": sig("signal-A"), "constant": 5}], [{"signal": sig("signal-C"), "copy_count_from_input": False, "constant": 7}])],
                    [[1, 1, 2, 1], [1, 1, 3, 1], [1, 1, 4, 1]]))
    c.settle()
    check(c.entities[2].out == {"signal-B": 9} and c.entities[3].out == {} and c.entities[4].out == {"signal-C": 7}, "decider defaults")
    # DNF: A or (B and C)
    rows = [{"first_signal": sig("signal-A"), "comparator": ">", "constant": 0},
            {"first_signal": sig("signal-B"), "comparator": ">", "constant": 0, "compare_type": "or"},
            {"first_signal": sig("signal-C"), "comparator": ">", "constant": 0, "compare_type": "and"}]
    for a, b, cc, want in [(1, 0, 0, True), (0, 1, 0, False), (0, 1, 1, True), (0, 0, 1, False)]:
        c = sim.load(bp([const(1, {"signal-A": a, "signal-B": b, "signal-C": cc}),
                         decider(2, rows, [{"signal": sig("signal-D"), "copy_count_from_input": False}])], [[1, 1, 2, 1]]))
        c.settle()
        check((c.entities[2].out == {"signal-D": 1}) == want, f"decider DNF {a}{b}{cc}")
    # each / everything / anything
    src = const(1, {"signal-A": 4, "signal-B": -2, "signal-C": 9})
    c = sim.load(bp([src, decider(2, [{"first_signal": sig("signal-each"), "comparator": ">", "constant": 3}], [{"signal": sig("signal-each")}]),
                     decider(3, [{"first_signal": sig("signal-everything"), "comparator": ">", "constant": -3}], [{"signal": sig("signal-X"), "copy_count_from_input": False}]),
                     decider(4, [{"first_signal": sig("signal-anything"), "comparator": ">", "constant": 8}], [{"signal": sig("signal-everything")}]),
                     decider(5, [{"first_signal": sig("signal-everything"), "comparator": ">", "constant": 0}], [{"signal": sig("signal-X"), "copy_count_from_input": False}])],
                    [[1, 1, 2, 1], [1, 1, 3, 1], [1, 1, 4, 1], [1, 1, 5, 1]]))
    c.settle()
    check(c.entities[2].out == {"signal-A": 4, "signal-C": 9}, "each filter")
    check(c.entities[3].out == {"signal-X": 1}, "everything true")
    check(c.entities[4].out == {"signal-A": 4, "signal-B": -2, "signal-C": 9}, "anything + everything output")
    check(c.entities[5].out == {}, "everything false")
    # classic S>R latch on one combinator with green feedback
    # blueprint defaults agree with draftsman's own 2.0 export
    try:
        from draftsman.entity import ArithmeticCombinator, DeciderCombinator

        a = ArithmeticCombinator("arithmetic-combinator")
        d = a.to_dict(version=(2, 0), exclude_defaults=False)
        ac = d["control_behavior"]["arithmetic_conditions"]
        check(ac.get("operation", "*") == "*", "draftsman default arithmetic operation is *")
        dd = DeciderCombinator("decider-combinator")
        dd.conditions = [DeciderCombinator.Condition(first_signal="signal-A", constant=1)]
        dd.outputs = [DeciderCombinator.Output(signal="signal-A")]
        e = dd.to_dict(version=(2, 0), exclude_defaults=False)["control_behavior"]["decider_conditions"]
        check(e["conditions"][0].get("comparator", "<") == "<", "draftsman default comparator is <")
        check(e["outputs"][0].get("copy_count_from_input", True) is True, "draftsman default copy_count_from_input is true")
        check(e["conditions"][0].get("compare_type", "or") == "or", "draftsman default compare_type is or")
    except ImportError:
        pass
    print("fv selftest ok")


if __name__ == "__main__":
    main()
