"""JSON (de)serialisation of abstract programs and cases, for replay files."""

from __future__ import annotations

import dataclasses

from . import lang

_CLASSES = {c.__name__: c for c in vars(lang).values() if isinstance(c, type) and dataclasses.is_dataclass(c)}


def enc(o):
    if dataclasses.is_dataclass(o) and not isinstance(o, type):
        d = {"$": type(o).__name__}
        for f in dataclasses.fields(o):
            d[f.name] = enc(getattr(o, f.name))
        return d
    if isinstance(o, tuple):
        return {"$t": [enc(x) for x in o]}
    if isinstance(o, list):
        return [enc(x) for x in o]
    if isinstance(o, dict):
        return {"$d": [[enc(k), enc(v)] for k, v in o.items()]}
    if isinstance(o, (str, int, float, bool)) or o is None:
        return o
    raise TypeError(f"cannot encode {type(o).__name__}")


def dec(o):
    if isinstance(o, dict):
        if "$" in o:
            cls = _CLASSES[o["$"]]
            return cls(**{k: dec(v) for k, v in o.items() if k != "$"})
        if "$t" in o:
            return tuple(dec(x) for x in o["$t"])
        if "$d" in o:
            return {dec(k): dec(v) for k, v in o["$d"]}
        return {k: dec(v) for k, v in o.items()}
    if isinstance(o, list):
        return [dec(x) for x in o]
    return o
