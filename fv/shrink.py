"""Bounded delta-debugging over abstract cases (dict with a 'prog': Program and optional
'vals': list of valuations, 'hist': list of steps)."""

from __future__ import annotations

import dataclasses

from . import lang
from .lang import Num, Program


def _expr_variants(e):
    """Smaller expressions that could replace e."""
    for c in lang.children(e):
        if dataclasses.is_dataclass(c) and not isinstance(c, lang.TypeOf):
            yield c
    if isinstance(e, Num):
        for v in (0, 1, -1, e.v // 2):
            if v != e.v and abs(v) < abs(e.v):
                yield Num(v)
        if e.base != 10:
            yield Num(e.v)
    if isinstance(e, lang.Paren):
        yield e.e


def _rewrite(e, path, new):
    """Replace the sub-expression at `path` (list of field names / indices)."""
    if not path:
        return new
    head, rest = path[0], path[1:]
    if isinstance(head, tuple):  # (field, index) into a tuple field
        fld, idx = head
        seq = list(getattr(e, fld))
        seq[idx] = _rewrite(seq[idx], rest, new)
        return dataclasses.replace(e, **{fld: tuple(seq)})
    return dataclasses.replace(e, **{head: _rewrite(getattr(e, head), rest, new)})


def _paths(e, prefix=()):
    """All (path, subexpr) of dataclass sub-expressions."""
    if not dataclasses.is_dataclass(e) or isinstance(e, type):
        return
    yield prefix, e
    for f in dataclasses.fields(e):
        v = getattr(e, f.name)
        if isinstance(v, tuple):
            for i, x in enumerate(v):
                if dataclasses.is_dataclass(x):
                    yield from _paths(x, prefix + ((f.name, i),))
        elif dataclasses.is_dataclass(v):
            yield from _paths(v, prefix + (f.name,))


def program_variants(prog: Program):
    stmts = prog.stmts
    # drop one statement (later ones first: outputs are usually at the end)
    for i in reversed(range(len(stmts))):
        yield Program(stmts[:i] + stmts[i + 1:])
    # shrink inside statements
    for i, s in enumerate(stmts):
        for path, sub in _paths(s):
            if sub is s:
                # unwrap loop bodies
                if isinstance(s, lang.For) and s.body:
                    for j in range(len(s.body)):
                        yield Program(stmts[:i] + (dataclasses.replace(s, body=s.body[:j] + s.body[j + 1:]),) + stmts[i + 1:])
                if isinstance(s, lang.Func) and len(s.body) > 1:
                    for j in range(len(s.body) - 1):
                        yield Program(stmts[:i] + (dataclasses.replace(s, body=s.body[:j] + s.body[j + 1:]),) + stmts[i + 1:])
                continue
            if isinstance(sub, (lang.Decl, lang.For, lang.Func, lang.Write, lang.Latch, lang.Assign,
                                lang.MemDecl, lang.Return, lang.ExprStmt, lang.Range, lang.ListIter)):
                continue
            for v in _expr_variants(sub):
                try:
                    yield Program(stmts[:i] + (_rewrite(s, list(path), v),) + stmts[i + 1:])
                except Exception:  # noqa: BLE001
                    continue


def variants(case):
    """Default variants for dict-shaped cases."""
    if not isinstance(case, dict):
        return
    if isinstance(case.get("vals"), list) and len(case["vals"]) > 1:
        for v in case["vals"]:
            yield {**case, "vals": [v]}
    if isinstance(case.get("hist"), list) and len(case["hist"]) > 1:
        h = case["hist"]
        yield {**case, "hist": h[: len(h) // 2]}
        for i in reversed(range(len(h))):
            yield {**case, "hist": h[:i] + h[i + 1:]}
    for k in ("prog", "prog2"):
        if isinstance(case.get(k), Program):
            for p in program_variants(case[k]):
                yield {**case, k: p}
    if isinstance(case.get("vals"), list):
        for i, v in enumerate(case["vals"]):
            for name, x in v.items():
                for nx in (0, 1, -1):
                    if isinstance(x, int) and nx != x and abs(nx) < abs(x):
                        nv = dict(v)
                        nv[name] = nx
                        yield {**case, "vals": case["vals"][:i] + [nv] + case["vals"][i + 1:]}
    if case.get("opts", {}).get("full_parens") or case.get("opts", {}).get("word_logic"):
        yield {**case, "opts": {"word_logic": False, "full_parens": False}}
