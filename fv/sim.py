"""Executable model of Factorio 2.0 circuit networks, run on decoded blueprint JSON.

No code is shared with the compiler.  See DESIGN.md section 3 for the rules and their
sources.  Signals are identified by name (the compiler never uses quality variants and item /
fluid / virtual names do not collide in the game data).
"""

from __future__ import annotations

import re

from .alu import Unmodelled, arith, compare, wrap

RED_IDS = (1, 3)
GREEN_IDS = (2, 4)
COPPER_IDS = (5, 6)

WILDCARDS = ("signal-each", "signal-everything", "signal-anything")


class SimError(Exception):
    """The blueprint contains something the model cannot execute (harness error, never a verdict)."""


def colour_of(conn: int) -> str:
    if conn in RED_IDS:
        return "red"
    if conn in GREEN_IDS:
        return "green"
    if conn in COPPER_IDS:
        return "copper"
    raise SimError(f"unknown connector id {conn}")


_DESC = re.compile(r"^(?:\[(?P<loc>[^\]]*)\] )?(?P<rest>.*)$", re.S)


def parse_description(desc: str) -> dict:
    """Split the compiler's entity description '[file:line] name (op) -> signal'."""
    out = {"file": None, "line": None, "name": None, "op": None, "signal": None, "raw": desc}
    if not desc:
        return out
    m = _DESC.match(desc)
    loc, rest = m.group("loc"), m.group("rest")
    if loc is not None:
        if ":" in loc and loc.rsplit(":", 1)[1].isdigit():
            out["file"], line = loc.rsplit(":", 1)
            out["line"] = int(line)
        else:
            out["file"] = loc
    if " -> " in rest:
        rest, sig = rest.rsplit(" -> ", 1)
        out["signal"] = sig.strip()
    if " (" in rest and rest.endswith(")"):
        name, op = rest.split(" (", 1)
        out["name"], out["op"] = name, op[:-1]
    else:
        out["name"] = rest
    return out


def _sig_name(sig):
    if sig is None:
        return None
    if isinstance(sig, str):
        return sig
    return sig.get("name")


def _nets(sel) -> tuple[bool, bool]:
    """2.0 network selection: both default to true."""
    if sel is None:
        return True, True
    return bool(sel.get("red", True)), bool(sel.get("green", True))


class Entity:
    __slots__ = ("num", "name", "kind", "cb", "desc", "pos", "direction", "raw", "out", "contents")

    def __init__(self, raw: dict):
        self.raw = raw
        self.num = raw["entity_number"]
        self.name = raw["name"]
        self.cb = raw.get("control_behavior") or {}
        self.desc = parse_description(raw.get("player_description", "") or "")
        p = raw.get("position", {})
        self.pos = (p.get("x"), p.get("y"))
        self.direction = raw.get("direction", 0)
        if self.name == "arithmetic-combinator":
            self.kind = "arith"
        elif self.name == "decider-combinator":
            self.kind = "decider"
        elif self.name == "constant-combinator":
            self.kind = "const"
        elif self.name == "selector-combinator":
            self.kind = "selector"
        else:
            self.kind = "other"
        self.out: dict[str, int] = {}
        self.contents: dict[str, int] = {}  # what a chest/tank reports (driver on conn 1/2)

    def const_signals(self) -> dict[str, int]:
        res: dict[str, int] = {}
        if not self.cb.get("is_on", True):
            return res
        secs = (self.cb.get("sections") or {}).get("sections") or []
        for sec in secs:
            if not sec.get("active", True):
                continue
            for f in sec.get("filters") or []:
                n = f.get("name")
                if n is None:
                    continue
                res[n] = wrap(res.get(n, 0) + int(f.get("count", 0)))
        return {k: v for k, v in res.items() if v != 0}


class Circuit:
    """Netlist + tick engine."""

    def __init__(self, bp: dict):
        if "blueprint" in bp:
            bp = bp["blueprint"]
        self.bp = bp
        self.entities: dict[int, Entity] = {}
        for raw in bp.get("entities", []) or []:
            e = Entity(raw)
            if e.num in self.entities:
                raise SimError(f"duplicate entity_number {e.num}")
            self.entities[e.num] = e
        self.wires = [tuple(w) for w in (bp.get("wires") or [])]
        self._parent: dict[tuple[int, int], tuple[int, int]] = {}
        for w in self.wires:
            if len(w) != 4:
                raise SimError(f"malformed wire {w}")
            e1, c1, e2, c2 = w
            if e1 not in self.entities or e2 not in self.entities:
                raise SimError(f"wire {w} references a missing entity")
            if colour_of(c1) != colour_of(c2):
                raise SimError(f"wire {w} joins different colours")
            if colour_of(c1) == "copper":
                continue
            self._union(self._node(e1, c1), self._node(e2, c2))
        self.tick = 0
        self._netvals: dict[tuple[int, int], dict[str, int]] | None = None
        for e in self.entities.values():
            if e.kind == "selector":
                raise SimError("selector combinators are not modelled")

    # -- union find ---------------------------------------------------------------------
    def _node(self, num: int, conn: int) -> tuple[int, int]:
        e = self.entities[num]
        if e.kind not in ("arith", "decider", "selector"):
            # single connection point: ids 1/2 (some exports use 3/4 never for these)
            if conn in (3, 4):
                raise SimError(f"entity {num} ({e.name}) has no output connector {conn}")
        return (num, conn)

    def _find(self, x):
        p = self._parent
        if x not in p:
            p[x] = x
            return x
        root = x
        while p[root] != root:
            root = p[root]
        while p[x] != root:
            p[x], x = root, p[x]
        return root

    def _union(self, a, b):
        ra, rb = self._find(a), self._find(b)
        if ra != rb:
            if ra > rb:
                ra, rb = rb, ra
            self._parent[rb] = ra

    def net_id(self, num: int, conn: int):
        return self._find((num, conn))

    def partition(self):
        """All circuit networks as frozensets of (entity, connector)."""
        groups: dict = {}
        for n in list(self._parent):
            groups.setdefault(self._find(n), set()).add(n)
        return [frozenset(g) for g in groups.values()]

    # -- values -------------------------------------------------------------------------
    def _compute_netvals(self):
        vals: dict[tuple[int, int], dict[str, int]] = {}

        def drive(num, conn, sigs):
            if not sigs:
                return
            key = self._find((num, conn))
            d = vals.setdefault(key, {})
            for s, v in sigs.items():
                d[s] = wrap(d.get(s, 0) + v)

        for e in self.entities.values():
            if e.kind == "const":
                sigs = e.const_signals()
                drive(e.num, 1, sigs)
                drive(e.num, 2, sigs)
            elif e.kind in ("arith", "decider"):
                drive(e.num, 3, e.out)
                drive(e.num, 4, e.out)
            elif e.contents:
                drive(e.num, 1, e.contents)
                drive(e.num, 2, e.contents)
        for d in vals.values():
            for s in [s for s, v in d.items() if v == 0]:
                del d[s]
        self._netvals = vals

    def read_net(self, num: int, conn: int) -> dict[str, int]:
        if self._netvals is None:
            self._compute_netvals()
        return self._netvals.get(self._find((num, conn)), {})

    def read_input(self, num: int, red: bool = True, green: bool = True) -> dict[str, int]:
        """Signals seen at connector 1 (red) / 2 (green) of an entity, summed over the selection."""
        res: dict[str, int] = {}
        if red:
            for s, v in self.read_net(num, 1).items():
                res[s] = v
        if green:
            for s, v in self.read_net(num, 2).items():
                res[s] = wrap(res.get(s, 0) + v)
        return {s: v for s, v in res.items() if v != 0}

    # -- combinators --------------------------------------------------------------------
    def _arith_out(self, e: Entity) -> dict[str, int]:
        c = e.cb.get("arithmetic_conditions") or {}
        op = c.get("operation", "*")
        f_sig, s_sig = _sig_name(c.get("first_signal")), _sig_name(c.get("second_signal"))
        o_sig = _sig_name(c.get("output_signal"))
        if o_sig is None:
            return {}
        f_in = self.read_input(e.num, *_nets(c.get("first_signal_networks")))
        s_in = self.read_input(e.num, *_nets(c.get("second_signal_networks")))
        for w in ("signal-everything", "signal-anything"):
            if w in (f_sig, s_sig, o_sig):
                raise SimError(f"{w} on an arithmetic combinator")

        def operand(sig, const, inp):
            if sig is not None:
                return inp.get(sig, 0)
            return int(const) if const is not None else 0

        if f_sig == "signal-each" or s_sig == "signal-each":
            if f_sig == "signal-each" and s_sig == "signal-each":
                raise SimError("each on both operands")
            each_first = f_sig == "signal-each"
            each_in = f_in if each_first else s_in
            res: dict[str, int] = {}
            for s, v in each_in.items():
                if each_first:
                    r = arith(op, v, operand(s_sig, c.get("second_constant"), s_in))
                else:
                    r = arith(op, operand(f_sig, c.get("first_constant"), f_in), v)
                if o_sig == "signal-each":
                    res[s] = r
                else:
                    res[o_sig] = wrap(res.get(o_sig, 0) + r)
            return {s: v for s, v in res.items() if v != 0}
        if o_sig == "signal-each":
            raise SimError("each output without each input")
        r = arith(
            op,
            operand(f_sig, c.get("first_constant"), f_in),
            operand(s_sig, c.get("second_constant"), s_in),
        )
        return {o_sig: r} if r != 0 else {}

    def _decider_out(self, e: Entity, left_to_right: bool = False) -> dict[str, int]:
        c = e.cb.get("decider_conditions") or {}
        conds = c.get("conditions") or []
        outs = c.get("outputs") or []
        if "first_signal" in c or "comparator" in c or "output_signal" in c:
            raise SimError("1.x style decider conditions in a 2.0 blueprint")
        rows = []
        each_domain = None
        for row in conds:
            f_sig, s_sig = _sig_name(row.get("first_signal")), _sig_name(row.get("second_signal"))
            f_in = self.read_input(e.num, *_nets(row.get("first_signal_networks")))
            s_in = self.read_input(e.num, *_nets(row.get("second_signal_networks")))
            if s_sig in ("signal-everything", "signal-anything"):
                raise SimError("wildcard as second operand")
            if f_sig == "signal-each" and each_domain is None:
                each_domain = f_in
            rows.append(
                (f_sig, s_sig, row.get("constant", 0), row.get("comparator", "<"),
                 row.get("compare_type", "or"), f_in, s_in)
            )

        def row_true(r, each_sig):
            f_sig, s_sig, const, cmp_, _ct, f_in, s_in = r
            if s_sig is not None:
                if s_sig == "signal-each":
                    rhs = s_in.get(each_sig, 0)
                else:
                    rhs = s_in.get(s_sig, 0)
            else:
                rhs = int(const)
            if f_sig is None:
                return compare(cmp_, 0, rhs)
            if f_sig == "signal-each":
                return compare(cmp_, f_in.get(each_sig, 0), rhs)
            if f_sig in ("signal-everything", "signal-anything"):
                vals = list(f_in.values())
                if f_sig == "signal-everything":
                    return all(compare(cmp_, v, rhs) for v in vals)
                return any(compare(cmp_, v, rhs) for v in vals)
            return compare(cmp_, f_in.get(f_sig, 0), rhs)

        def whole(each_sig):
            if not rows:
                return False  # an unconfigured decider outputs nothing
            if left_to_right:
                acc = row_true(rows[0], each_sig)
                for r in rows[1:]:
                    v = row_true(r, each_sig)
                    acc = (acc and v) if r[4] == "and" else (acc or v)
                return acc
            # DNF: AND binds tighter than OR
            group = row_true(rows[0], each_sig)
            for r in rows[1:]:
                if r[4] == "and":
                    group = group and row_true(r, each_sig)
                else:
                    if group:
                        return True
                    group = row_true(r, each_sig)
            return group

        res: dict[str, int] = {}

        def emit(sig, v):
            res[sig] = wrap(res.get(sig, 0) + v)

        uses_each = each_domain is not None
        if uses_each:
            passing = [s for s in each_domain if whole(s)]
        else:
            if not whole(None):
                return {}
            passing = []
        for o in outs:
            o_sig = _sig_name(o.get("signal"))
            if o_sig is None:
                continue
            copy = o.get("copy_count_from_input", True)
            const = int(o.get("constant", 1))
            o_in = self.read_input(e.num, *_nets(o.get("networks")))
            if o_sig == "signal-anything":
                raise Unmodelled("signal-anything as decider output")
            if uses_each:
                if o_sig == "signal-each":
                    for s in passing:
                        emit(s, o_in.get(s, 0) if copy else const)
                elif o_sig == "signal-everything":
                    raise SimError("everything output with each condition")
                else:
                    for s in passing:
                        emit(o_sig, o_in.get(s, 0) if copy else const)
            else:
                if o_sig == "signal-each":
                    raise SimError("each output without each condition")
                if o_sig == "signal-everything":
                    for s, v in o_in.items():
                        emit(s, v if copy else const)
                else:
                    emit(o_sig, o_in.get(o_sig, 0) if copy else const)
        return {s: v for s, v in res.items() if v != 0}

    # -- engine -------------------------------------------------------------------------
    def step(self, left_to_right: bool = False) -> bool:
        """Advance one tick. Returns True if any combinator output changed."""
        if self._netvals is None:
            self._compute_netvals()
        new: dict[int, dict[str, int]] = {}
        for e in self.entities.values():
            if e.kind == "arith":
                new[e.num] = self._arith_out(e)
            elif e.kind == "decider":
                new[e.num] = self._decider_out(e, left_to_right)
        changed = False
        for num, out in new.items():
            if self.entities[num].out != out:
                changed = True
                self.entities[num].out = out
        self._netvals = None
        self.tick += 1
        return changed

    def n_combinators(self) -> int:
        return sum(1 for e in self.entities.values() if e.kind in ("arith", "decider"))

    def settle(self, max_ticks: int | None = None, left_to_right: bool = False) -> int | None:
        """Step until nothing changes; returns ticks used, or None if it did not settle."""
        if max_ticks is None:
            max_ticks = min(4 * self.n_combinators() + 8, 400)
        for i in range(max_ticks):
            if not self.step(left_to_right):
                return i
        return None

    def reset(self):
        for e in self.entities.values():
            e.out = {}
        self._netvals = None
        self.tick = 0

    # -- inputs / probes ----------------------------------------------------------------
    def set_constant(self, num: int, values: dict[str, int]):
        """Override the signals of a constant combinator (same signal names, new counts)."""
        e = self.entities[num]
        if e.kind != "const":
            raise SimError("set_constant on a non-constant entity")
        secs = (e.cb.get("sections") or {}).get("sections") or []
        seen = set()
        for sec in secs:
            for f in sec.get("filters") or []:
                if f.get("name") in values and f["name"] not in seen:
                    f["count"] = int(values[f["name"]])
                    seen.add(f["name"])
        missing = set(values) - seen
        if missing:
            raise SimError(f"constant combinator {num} has no filter for {sorted(missing)}")
        self._netvals = None

    def set_contents(self, num: int, contents: dict[str, int]):
        self.entities[num].contents = {s: wrap(v) for s, v in contents.items() if v != 0}
        self._netvals = None

    def find(self, **kw):
        res = []
        for e in self.entities.values():
            ok = True
            for k, v in kw.items():
                if k == "name":
                    ok = ok and e.desc["name"] == v
                elif k == "op":
                    ok = ok and e.desc["op"] == v
                elif k == "proto":
                    ok = ok and e.name == v
                elif k == "op_contains":
                    ok = ok and e.desc["op"] is not None and v in e.desc["op"]
            if ok:
                res.append(e)
        return res

    def condition_state(self, num: int):
        """Evaluate an entity's circuit (enable) condition on its red+green networks.

        Returns (has_condition: bool, circuit_enabled: bool, value: bool|None).
        """
        e = self.entities[num]
        cb = e.cb
        cond = cb.get("circuit_condition")
        enabled = bool(cb.get("circuit_enabled", False))
        if cond is None:
            return False, enabled, None
        f_sig = _sig_name(cond.get("first_signal"))
        s_sig = _sig_name(cond.get("second_signal"))
        cmp_ = cond.get("comparator", "<")
        inp = self.read_input(num)
        rhs = inp.get(s_sig, 0) if s_sig is not None else int(cond.get("constant", 0))
        if f_sig is None:
            return True, enabled, compare(cmp_, 0, rhs)
        if f_sig == "signal-everything":
            return True, enabled, all(compare(cmp_, v, rhs) for v in inp.values())
        if f_sig == "signal-anything":
            return True, enabled, any(compare(cmp_, v, rhs) for v in inp.values())
        if f_sig == "signal-each":
            raise SimError("each in a circuit condition")
        return True, enabled, compare(cmp_, inp.get(f_sig, 0), rhs)


try:  # the game's signal names, taken once at import: the compiler adds names to this table while it runs
    from draftsman.data import signals as _game_signals

    GAME_SIGNALS = frozenset(_game_signals.raw)
except Exception:  # noqa: BLE001
    GAME_SIGNALS = frozenset()


def unknown_signals(bp_json) -> list:
    """Signal names used in any control behaviour that the game data does not contain (a blueprint
    naming one cannot be imported)."""
    if not GAME_SIGNALS:
        return []
    found = set()

    def walk(o):
        if isinstance(o, dict):
            n = o.get("name")
            if isinstance(n, str) and ("type" in o or set(o) <= {"name", "quality", "comparator", "count", "index"}):
                if n not in GAME_SIGNALS:
                    found.add(n)
            for v in o.values():
                walk(v)
        elif isinstance(o, list):
            for v in o:
                walk(v)

    for e in (bp_json.get("blueprint") or bp_json).get("entities", []):
        walk(e.get("control_behavior") or {})
    return sorted(found)


def load(bp_json) -> Circuit:
    import copy
    import json

    if isinstance(bp_json, str):
        bp_json = json.loads(bp_json)
    else:
        bp_json = copy.deepcopy(bp_json)
    bad = unknown_signals(bp_json)
    if bad:
        raise SimError(f"the blueprint names signals the game does not have: {bad[:4]}")
    return Circuit(bp_json)
