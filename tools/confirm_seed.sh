#!/bin/sh
# usage: tools/confirm_seed.sh <ID> <slug>
# Confirms a seeded change produced in /tmp/wt_<ID> in a fresh scratch worktree of /repo's HEAD:
# patch applies, demo fails with it and passes without it, the unedited test-suite still passes.
ID="$1"; SLUG="$2"
SRC=/tmp/wt_$ID
W=/tmp/confirm_$ID
OUT=/verif/seeded/$ID-$SLUG
LOG=/tmp/confirm_$ID.log
rm -rf "$W"; git -C /repo worktree prune
git -C /repo worktree add -q "$W" HEAD || exit 2
mkdir -p "$OUT"
cp "$SRC/patch.diff" "$OUT/patch.diff"; cp "$SRC/demo_$ID.py" "$OUT/demo.py"
cd "$W" || exit 2
{
echo "== apply"; git apply --check "$OUT/patch.diff" && git apply "$OUT/patch.diff"; echo "apply_rc=$?"
cp "$OUT/demo.py" "$W/demo_$ID.py"
echo "== demo with change"; PYTHONPATH=$W /venv/bin/python demo_$ID.py > /tmp/confirm_${ID}_with.txt 2>&1; echo "demo_with_rc=$?"
tail -3 /tmp/confirm_${ID}_with.txt
echo "== tests with change"; /venv/bin/python -m pytest -q -p no:cacheprovider -n 6 2>&1 | tail -4
echo "== demo without change"; git checkout -q -- . ; PYTHONPATH=$W /venv/bin/python demo_$ID.py > /tmp/confirm_${ID}_without.txt 2>&1; echo "demo_without_rc=$?"
} > "$LOG" 2>&1
cd /; git -C /repo worktree remove --force "$W"
cat "$LOG"
