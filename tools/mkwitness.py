"""Builds the committed witness files (witnesses/*.json) and known_findings.json from hand-written
abstract cases. Run by hand after triage; never at check time.

    PYTHONPATH=/repo:/verif /venv/bin/python tools/mkwitness.py
"""

import json
import os
import sys

ROOT = os.path.dirname(os.path.dirname(os.path.abspath(__file__)))
sys.path.insert(0, ROOT)

from fv import known, ser  # noqa: E402
from fv.lang import *  # noqa: E402,F403

S = lambda n, t, v: Decl("Signal", n, SigLit(t, Num(v)))  # noqa: E731
OPT = {"opts": {}, "optimize": True, "sched": {"seed": 0}}


def case01(stmts, vals, **kw):
    return {"prog": Program(tuple(stmts)), "vals": vals, **OPT, **kw}


FINDINGS = []


def add(pid, fid, status, what, case, commit=None, trigger=None, also=None):
    FINDINGS.append({"property": pid, "id": fid, "status": status, "what": what, "case": case, "commit": commit,
                     "trigger": trigger, "also": also or []})


# ---- fixed -----------------------------------------------------------------------------------
add("C01", "X-literal-constexpr", "fixed",
    "typed literal with a constant-expression value, (\"signal-Y\", 5 * 2 - 9), was emitted with value 0",
    case01([S("a", "signal-A", 7), Decl("Signal", "t", Bin("*", Ref("a"), SigLit("signal-Y", Bin("-", Bin("*", Num(5), Num(2)), Num(9)))))],
           [{"a": 7}, {"a": -3}]), commit="affd86c")
add("C01", "X-multicond-rows", "fixed",
    "folded (a > 3) && (b < 10) with a and b on the same signal read each row from red+green and saw a+b",
    case01([S("a", "signal-A", 5), S("b", "signal-A", 7),
            Decl("Signal", "r", Bin("&&", Bin(">", Ref("a"), Num(3)), Bin("<", Ref("b"), Num(10))))],
           [{"a": 5, "b": 7}, {"a": 2, "b": 7}, {"a": 9, "b": 12}]), commit="8153802")
add("C01", "X-cond-typed-literal", "fixed",
    "(12 > -27 as typed literals) : (\"coal\", -1) lost the coal type (emitted on a fresh implicit signal)",
    case01([Decl("Signal", "x", Cond(Bin(">", SigLit("copper-plate", Num(12)), SigLit("signal-info", Num(-27))), SigLit("coal", Num(-1))))],
           [{}]), commit="a3a60f5")
add("C01", "X-cond-constexpr-value", "fixed",
    "(a >= 0) : (2 + 5) output 0: the folded constant was never materialised for the copy-count decider",
    case01([S("a", "signal-A", 5), Decl("Signal", "z", Cond(Bin(">=", Ref("a"), Num(0)), Paren(Bin("+", Num(2), Num(5)))))],
           [{"a": 5}, {"a": -1}]), commit="e064caf")
add("C02", "X-filter-scalar-same-wire", "fixed",
    "(bundle >= k) : 1 with a signal k wired k on the bundle's colour; signal-each treated k as a member",
    case01([S("k", "signal-A", 50), Decl("Bundle", "b", BLit((SigLit("iron-plate", Num(100)), SigLit("copper-plate", Num(20))))),
            Decl("Bundle", "f", Cond(Bin(">=", Ref("b"), Ref("k")), Num(1)))], [{"k": 50}, {"k": 10}]), commit="ffd0a27")
add("C02", "X-gating-merged-bundle", "fixed",
    "(c >= 0) : {const, in6, in4}: the merged bundle stayed on red with the condition while the gate copied from green",
    case01([S("c", "signal-X", 2), S("in4", "crude-oil", 33), S("in6", "iron-plate", -7),
            Decl("Bundle", "b2", BLit((SigLit("signal-0", Num(0)), Ref("in6"), Ref("in4")))),
            Decl("Bundle", "b3", Cond(Bin(">=", Ref("c"), Num(0)), Ref("b2")))], [{"c": 2, "in4": 33, "in6": -7}, {"c": -1, "in4": 5, "in6": 6}]),
    commit="a52743f")
add("C02", "X-nested-merge", "fixed",
    "{ (\"coal\", 0), inner } with inner a merged bundle: the inner members were never wired to the consumer",
    case01([S("in1", "steel-plate", 0), S("in2", "iron-plate", -1), S("in4", "signal-B", 0),
            Decl("Bundle", "b1", BLit((SigLit("water", Num(0)), Ref("in2"), SigLit("signal-A", Num(0)), Ref("in1")))),
            Decl("Bundle", "b2", Ref("b1")), Decl("Bundle", "b3", BLit((SigLit("coal", Num(0)), Ref("b2")))),
            Decl("Signal", "q1", Bin(">=", AllOf(Ref("b3")), Ref("in4")))], [{"in1": 0, "in2": -1, "in4": 0}, {"in1": 4, "in2": 9, "in4": 3}]),
    commit="19d807d")
add("C03", "X-constant-write", "fixed",
    "m.write(7, when=e) stored nothing: the written constant was inlined, the gates read it from a wire",
    {"prog": Program((S("e2", "signal-E", 0), MemDecl("m2", "stone"), Write("m2", Num(7), Ref("e2")), Decl("Signal", "r3", MemRead("m2")))),
     "hist": [["e2", 2], ["e2", 0]], **OPT}, commit="06d710f")
add("C04", "X-unconditional-two-gate", "fixed",
    "m.write((sx < 100) : sx) keeps the two-gate cell but the constant signal-W enable was never emitted: cell stuck at 0",
    {"prog": Program((MemDecl("m", "signal-1"), Decl("Signal", "sx", Bin("+", MemRead("m"), Num(3))),
                      Write("m", Cond(Bin("<", Ref("sx"), Num(100)), Ref("sx"))), Decl("Signal", "r0", MemRead("m")))),
     "vals": [{}], **OPT}, commit="06d710f")
add("C06", "X-pump-no-condition", "fixed",
    "pump.enable = x > 3 emitted a wired pump without any circuit condition (same for power-switch, offshore-pump)",
    {"prog": Program((S("in1", "signal-B", 7), Decl("Entity", "ent1", Place("pump", Num(6), Num(0))),
                      Assign("ent1", "enable", Bin(">", Ref("in1"), Num(3))))),
     "vals": [{"in1": 7}, {"in1": 1}], "contents": [{}, {}], **OPT}, commit="6fe913a")
add("C15", "X-int-arg-copied", "fixed",
    "f(in2, 6) with body `x0 <= 4 : p1`: the Signal parameter bound to literal 6 was an inlined constant the decider could not copy",
    {"prog": Program((S("in2", "signal-X", 2), Func("f1", (("Signal", "x0"), ("Signal", "p1")), (Return(Cond(Bin("<=", Ref("x0"), Num(4)), Ref("p1"))),)),
                      Decl("Signal", "r3", Call("f1", (Ref("in2"), Num(6)))))),
     "prog2": Program((S("in2", "signal-X", 2), Decl("Signal", "r3", Cond(Bin("<=", Ref("in2"), Num(4)), Num(6))))),
     "vals": [{"in2": 2}, {"in2": 9}], **OPT}, commit="d397dd7")
add("C11", "X-python-folding", "fixed",
    "compile-time arithmetic used Python integers: -7 / 2 folded to -4 (circuit: -3), -7 % 3 to 2 (circuit: -1), overflow unbounded",
    {"site": "decl", "expr": Bin("/", Num(-7), Num(2)), "input": 0, "optimize": True, "sched": {"seed": 0}, "opts": {}}, commit="9f91162")
# ---- open ------------------------------------------------------------------------------------
add("C01", "F-leak", "open",
    "sources wired on one colour to sinks that share another source end up on one circuit network: x = a + 1; z = x + b; w = a + b "
    "puts x's output on x's own input network (z never settles)",
    case01([S("a", "signal-A", 1), S("b", "signal-B", 2), Decl("Signal", "x", Bin("+", Ref("a"), Num(1))),
            Decl("Signal", "z", Bin("+", Ref("x"), Ref("b"))), Decl("Signal", "w", Bin("+", Ref("a"), Ref("b")))], [{"a": 1, "b": 2}]),
    trigger="shared-network-leak")
add("C11", "F-irdiv", "open",
    "the IR optimiser folds '/' of two anonymous constants with floor division: f(-7) with body `s / 2` gives -4, --no-optimize gives -3 "
    "(pinned by test_optimizer.py, cannot be repaired without editing a test)",
    {"site": "irfunc", "expr": Bin("/", Num(-7), Num(2)), "input": 0, "optimize": True, "sched": {"seed": 0}, "opts": {}},
    trigger="ir-fold-floor-div")


C20 = {"opts": {}, "sched": {"seed": 0}}
add("C20", "F-folded-name", "open",
    "a named result the IR optimiser folds to a constant is emitted as 'arith_N_folded' and the name appears nowhere: Signal l = k * 2 | \"copper-plate\"",
    {"kind": "scalar", "prog": Program((Decl("int", "k", Num(3)), Decl("Signal", "l", Proj(Bin("*", Ref("k"), Num(2)), "copper-plate")))), "optimize": True, **C20},
    trigger="folded-constant-loses-name")
add("C20", "F-cse-name", "open",
    "two names bound to equal expressions (Signal v1 = !a; Signal v4 = !a;) are merged by CSE and only the first name is labelled / anchored",
    {"kind": "cse", "prog": Program((S("a", "signal-A", 0), Decl("Signal", "v1", Un("!", Ref("a"))), Decl("Signal", "v4", Un("!", Ref("a"))))), "optimize": True, **C20},
    trigger="cse-drops-name")
add("C20", "F-alias-relabel", "open",
    "Bundle b1 = { in2 }; relabels the input's constant combinator 'b1 (value=..)': the declared input in2 is no longer findable",
    {"kind": "bundle", "prog": Program((S("in2", "steam", 4), Decl("Bundle", "b1", BLit((Ref("in2"),))))), "optimize": False, **C20},
    trigger="alias-relabels-input")
add("C20", "F-const-line", "open",
    "some producers carry no source line (constants made from int expressions, bundle constants, bundle arithmetic): Signal v1 = k1 | in2.type is described '[<string>] v1 (value=0 (input))'",
    {"kind": "scalar", "prog": Program((S("in2", "signal-A", 0), Decl("int", "k1", Num(0)), Decl("Signal", "v1", Proj(Ref("k1"), TypeOf("in2"))))), "optimize": False, **C20},
    trigger="constant-description-without-line")
add("C20", "X-call-alias", "fixed",
    "a call whose result is just one of its Signal arguments (f(in1, in2, 1) with body `Signal t0 = in1p; return p2 > 0 : t0;`) leaves the result name unlabelled and without an anchor",
    {"kind": "func", "prog": Program((S("in1", "signal-A", 0), S("in2", "signal-B", 0),
        Func("f1", (("Signal", "q1"), ("Signal", "p1"), ("Signal", "p2")), (Decl("Signal", "t0", Ref("q1")), Return(Cond(Bin(">", Ref("p2"), Num(0)), Ref("t0"))))),
        Decl("Signal", "r1", Call("f1", (Ref("in1"), Ref("in2"), Num(1)))))), "optimize": True, **C20},
    commit="148e208")
add("C20", "F-bundle-alias", "open",
    "an unconsumed alias of a bundle (Bundle b4 = b1;) is neither labelled nor anchored",
    {"kind": "bundle", "prog": Program((S("in1", "steam", 2), Decl("Bundle", "b1", BLit((SigLit("electronic-circuit", Num(3)), Ref("in1")))),
        Decl("Bundle", "b2", Bin("*", Ref("b1"), Num(2))), Decl("Bundle", "b4", Ref("b1")))), "optimize": False, **C20},
    trigger="bundle-alias-not-exposed")
add("C01", "F-three-same", "open",
    "three sources carrying the same signal name at one combinator cannot be separated with two wire colours; the compiler only logs the "
    "conflict: (in2 <= in1 || in3 <= 2) with three iron-plate inputs reads in2+in3 from green",
    case01([S("in1", "iron-plate", 0), S("in2", "iron-plate", 0), S("in3", "iron-plate", 3),
            Decl("Signal", "v1", Bin("||", Bin("<=", Ref("in2"), Ref("in1")), Bin("<=", Ref("in3"), Num(2))))], [{"in1": 0, "in2": 0, "in3": 3}]),
    trigger="three-same-signal-sources")
C14X = lang_prog_empty = Program(())
add("C14", "X-bundle-from-int", "fixed", "'Bundle b = 5;' was accepted (empty blueprint)",
    {"rule": "bundle-from-int", "how": "top", "extra": C14X, "pos": 0, "cli": False, "optimize": True}, commit="62df0c9")
add("C14", "X-zero-step-var", "fixed", "'int s = 0; for i in 0..5 step s {..}' was accepted (zero iterations)",
    {"rule": "zero-step-var", "how": "top", "extra": C14X, "pos": 0, "cli": False, "optimize": True}, commit="eb083a9")
add("C14", "F-second-write-loop", "open",
    "a write inside a loop body to a cell declared outside the loop executes once per iteration (two writes to one cell) and is accepted; "
    "the analyser caches the type of the write node and never sees the second iteration",
    {"rule": "second-write-via-loop", "how": "top", "extra": C14X, "pos": 0, "cli": False, "optimize": True},
    trigger="accepts-second-write-via-loop")
add("C13", "X-pool", "fixed", "Signal x = 5; was allocated signal-A although the program uses (\"signal-A\", 3) explicitly; both shared a channel in {x, y}",
    {"prog": Program((Decl("Signal", "u1", Num(5)), S("t1", "signal-A", 3), Decl("Bundle", "b1", BLit((Ref("u1"), Ref("t1")))))),
     "vals": [{"u1": 5, "t1": 3}, {"u1": -2, "t1": 9}], "mixes": 1, "optimize": True, "sched": {"seed": 0}, "opts": {}}, commit="c894f3f")
add("C01", "X-const-left-compare", "fixed", "'50 > a' was emitted as 'signal-0 > a' (constant on the left of a comparison)",
    case01([S("a", "signal-A", 17), Decl("Signal", "y", Bin(">", Num(50), Ref("a")))], [{"a": 17}, {"a": 60}]), commit="a426aa2")
add("C01", "X-bool-shortcut", "fixed", "'in2 != 0 && in1 + 0' multiplied instead of testing in1 != 0 (input declared 0 counted as boolean)",
    case01([Decl("Signal", "in1", Num(0)), Decl("Signal", "in2", Num(0)),
            Decl("Signal", "v1", Bin("&&", Bin("!=", Ref("in2"), Num(0)), Bin("+", Ref("in1"), Num(0))))], [{"in1": -1, "in2": 1}]), commit="b537e40")
add("C01", "X-proj-into-copy-decider", "fixed", "((j1 > 10 : j2) | \"signal-0\") ** 4 retyped the copy-count decider and read a signal that is not on its input",
    case01([S("j1", "signal-C", 55), S("j2", "signal-D", -554),
            Decl("Signal", "w3", Bin("**", Proj(Cond(Bin(">", Ref("j1"), Num(10)), Ref("j2")), "signal-0"), Num(4)))], [{"j1": 55, "j2": -554}, {"j1": 1, "j2": 3}]),
    commit="0f792f9")
add("C02", "X-gate-moves-bundle", "fixed", "all(b) >= 5 next to a gate (c > 0) : b of the same bundle read red while the gate had moved b to green",
    case01([S("in1", "signal-A", 0), Decl("Bundle", "b1", BLit((SigLit("steam", Num(3)),))), Decl("Signal", "q1", Bin(">=", AllOf(Ref("b1")), Num(5))),
            Decl("Bundle", "b4", Cond(Bin(">", Ref("in1"), Num(0)), Ref("b1")))], [{"in1": 0}, {"in1": 4}]), commit="4bb8c14")
add("C10", "X-logic-const-operand", "fixed", "(v1 >> 16) && ((\"steam\", 29) AND 10) was 0 without optimisation (constant operand compared through signal-0)",
    {"kind": "scalar", "prog": Program((S("v1", "stone", -1),
        Decl("Signal", "v2", Bin("&&", Bin(">>", Ref("v1"), Num(16)), Bin("AND", SigLit("steam", Num(29)), Num(10)))))),
     "steps": [{"v1": -1}, {"v1": 0}], "opts": {}, "sched": {"seed": 0}}, commit="29a8d99")
add("C08", "F-small-pole-reach", "open",
    "--power-poles small: power poles double as circuit relays and the pole table gives small poles a reach of 9 tiles (game data: 7.5, "
    "value pinned by test_power_planner.py): circuit wires of 8.2 and 8.5 tiles are attached to small poles",
    {"prog": Program((Decl("Signal", "in2", Num(0)), Decl("Entity", "ent2", Place("inserter", Num(0), Num(0))), Assign("ent2", "enable", Ref("in2")),
                      Decl("Entity", "ent3", Place("assembling-machine-1", Num(0), Num(20))), Assign("ent3", "enable", Ref("in2")))),
     "opts": {}, "poles": "small", "optimize": True, "sched": {"seed": 7}},
    trigger="small-pole-circuit-reach")
C18 = {"opts": {}, "optimize": True}
add("C18", "F-pole-coverage", "open",
    "--power-poles small: an assembling machine at (2,8) is not covered: the grid pole on its own tile is skipped and its neighbours "
    "are trimmed because trimming measures to the entity's centre",
    {"prog": Program((S("in1", "signal-red", 2), Decl("Entity", "ent1", Place("pump", Num(1), Num(0))), Decl("Entity", "ent4", Place("pump", Num(-11), Num(1))),
                      Decl("Entity", "ent6", Place("assembling-machine-1", Num(2), Num(8))))),
     "poles": "small", "vals": [{"in1": -1}], "sched": {"seed": 11, "workers": 1, "det_time": 0.05}, **C18},
    trigger="pole-coverage-holes")
add("C18", "F-big-pole-supply", "open",
    "--power-poles big: the pole table gives big poles a supply radius of 5 (game data: 2, value pinned by test_power_planner.py): a pump at (0,7) is left unpowered",
    {"prog": Program((Decl("Entity", "ent1", Place("pump", Num(0), Num(7))),)), "poles": "big", "vals": [{}],
     "sched": {"seed": 1, "workers": 1, "det_time": 0.5}, **C18},
    trigger="big-pole-supply-area")
add("C18", "F-pole-far", "open",
    "user entities far from the origin: a single lamp at (61,60) with --power-poles substation gets no pole at all",
    {"prog": Program((Decl("Entity", "ent3", Place("small-lamp", Num(61), Num(60))),)), "poles": "substation", "vals": [{}],
     "sched": {"seed": 19, "workers": 1, "det_time": 0.05}, **C18},
    trigger="pole-grid-far-apart")
add("C18", "X-pole-grid-split", "fixed",
    "two machines 25 tiles apart with --power-poles small: trimming left two pole islands out of each other's wire reach",
    {"prog": Program((Decl("Signal", "in1", Num(0)), Decl("Entity", "ent1", Place("assembling-machine-1", Num(20), Num(-4))))), "poles": "small",
     "vals": [{"in1": 12}], "sched": {"seed": 20, "workers": 1, "det_time": 0.5}, **C18}, commit="9602cb4")
add("C09", "X-decomposition-moves-fixed", "fixed",
    "more than 500 entities: the solver's component decomposition shifted user-placed entities (520 lamps from a loop all moved)",
    {"prog": Program((S("sig", "signal-A", 3), For("i0", Range(Num(0), Num(520), None),
        (Decl("Entity", "le", Place("small-lamp", Bin("+", Bin("*", Ref("i0"), Num(2)), Num(5)), Num(7))),)))),
     "info": {"loop": True}, "opts": {}, "poles": None, "optimize": True, "sched": {"seed": 0}}, commit="081906c")
_lp = Program((S("in1", "signal-1", 100), For("i2", Range(Num(5), Num(9), Num(2)),
      (Decl("Signal", "t2", Bin("*", Ref("in1"), Ref("i2"))), Decl("Entity", "e2", Place("small-lamp", Bin("*", Ref("i2"), Num(3)), Num(10))),
       Assign("e2", "enable", Bin(">", Bin("*", Ref("in1"), Ref("i2")), Num(0)))))))
_lu = Program((S("in1", "signal-1", 100),
      Decl("Signal", "t2_u0", Bin("*", Ref("in1"), Num(5))), Decl("Entity", "e2_u0", Place("small-lamp", Bin("*", Num(5), Num(3)), Num(10))),
      Assign("e2_u0", "enable", Bin(">", Bin("*", Ref("in1"), Num(5)), Num(0))),
      Decl("Signal", "t2_u1", Bin("*", Ref("in1"), Num(7))), Decl("Entity", "e2_u1", Place("small-lamp", Bin("*", Num(7), Num(3)), Num(10))),
      Assign("e2_u1", "enable", Bin(">", Bin("*", Ref("in1"), Num(7)), Num(0)))))
add("C16", "F-loop-local-output", "open",
    "an unconsumed Signal declared in a loop body (Signal t2 = in1 * i2;) is exported by the unrolled program once per iteration but by the loop not at all",
    {"prog": _lp, "prog2": _lu, "info": {}, "vals": [{"in1": 150}], "optimize": True, "sched": {"seed": 0}, "opts": {}},
    trigger="loop-local-output-not-exposed")
_sa = Program((Decl("int", "sh", Num(26)), S("in1", "signal-check", 10),
      For("sh", ListIter((Num(3),)), (Decl("Entity", "shl", Place("small-lamp", Bin("+", Bin("*", Ref("sh"), Num(2)), Num(60)), Num(-50))),
                                       Assign("shl", "enable", Bin(">", Ref("in1"), Ref("sh"))))),
      Decl("Entity", "sha", Place("small-lamp", Num(90), Num(-50))), Assign("sha", "enable", Bin(">", Ref("in1"), Ref("sh")))))
_sb = Program((Decl("int", "sh", Num(26)), S("in1", "signal-check", 10),
      Decl("Entity", "shl_u0", Place("small-lamp", Bin("+", Bin("*", Num(3), Num(2)), Num(60)), Num(-50))),
      Assign("shl_u0", "enable", Bin(">", Ref("in1"), Num(3))),
      Decl("Entity", "sha", Place("small-lamp", Num(90), Num(-50))), Assign("sha", "enable", Bin(">", Ref("in1"), Ref("sh")))))
add("C16", "X-loop-shadow-leak", "fixed",
    "an iterator (or body-local name) shadowing an outer int kept the iteration's value after the loop",
    {"prog": _sa, "prog2": _sb, "info": {"shadow": True}, "vals": [{"in1": 10}], "optimize": True, "sched": {"seed": 0}, "opts": {}}, commit="ed452d7")
add("C15", "X-local-memory-shared", "fixed",
    "two calls of a function with a local Memory shared one cell (acc(a) and acc(b) both read a+b)",
    {"prog": Program((S("a", "signal-A", 3), S("b", "signal-B", 5),
        Func("acc", (("Signal", "x"),), (MemDecl("count", "signal-C"), Write("count", Proj(Ref("x"), "signal-C"), Bin(">", Ref("x"), Num(0))), Return(MemRead("count")))),
        Decl("Signal", "r1", Call("acc", (Ref("a"),))), Decl("Signal", "r2", Call("acc", (Ref("b"),))))),
     "prog2": Program((S("a", "signal-A", 3), S("b", "signal-B", 5),
        MemDecl("count_c1", "signal-C"), Write("count_c1", Proj(Ref("a"), "signal-C"), Bin(">", Ref("a"), Num(0))), Decl("Signal", "r1", MemRead("count_c1")),
        MemDecl("count_c2", "signal-C"), Write("count_c2", Proj(Ref("b"), "signal-C"), Bin(">", Ref("b"), Num(0))), Decl("Signal", "r2", MemRead("count_c2")))),
     "vals": [{"a": 3, "b": 5}], "optimize": True, "sched": {"seed": 0}, "opts": {}}, commit="21a8dd8")
add("C10", "X-cse-filter-modes", "fixed",
    "(b < 4) : b and (b < 4) : 1 were merged by CSE (the key ignored the output mode)",
    {"kind": "bundle", "prog": Program((S("in4", "stone", 0), S("in5", "signal-C", 0), Decl("Bundle", "b1", BLit((Ref("in4"), Ref("in5")))),
        Decl("Bundle", "b2", Cond(Bin("<", Ref("b1"), Num(4)), Ref("b1"))), Decl("Bundle", "b3", Cond(Bin("<", Ref("b1"), Num(4)), Num(1))))),
     "steps": [{"in4": 0, "in5": -1}, {"in4": 2, "in5": 7}], "opts": {}, "sched": {"seed": 0}}, commit="fd91500")
add("C10", "X-folded-ref-in-row", "fixed",
    "constant propagation did not rewrite references held by multi-condition rows: 'v2 > in1 && in2 < in4' with a folded v2 compared 0",
    {"kind": "scalar", "prog": Program((Decl("Signal", "in1", Num(0)), Decl("Signal", "in2", Num(0)), Decl("Signal", "in4", Num(0)),
        Decl("Signal", "v2", Bin("/", Proj(Num(-8), "signal-B"), Num(1))),
        Decl("Signal", "v3", Bin("&&", Bin(">", Ref("v2"), Ref("in1")), Bin("<", Ref("in2"), Ref("in4")))))),
     "steps": [{"in1": -5, "in2": 2, "in4": 24}, {"in1": -50, "in2": 2, "in4": 24}], "opts": {}, "sched": {"seed": 0}}, commit="d9db787")


def _balanced(n, pads):
    st = [Decl("Signal", f"pad{i}", Num(i + 1)) for i in range(pads)]
    for i in range(n):
        st.append(Decl("Entity", f"chest{i + 1}", Place("steel-chest", Num(i), Num(0))))
    st.append(Decl("Bundle", "total", BLit(tuple(PropRead(f"chest{i + 1}", "output") for i in range(n)))))
    st.append(Decl("Bundle", "f", Bin("/", Ref("total"), Num(-n))))
    for i in range(n):
        st.append(Decl("Bundle", f"d{i + 1}", BLit((Ref("f"), PropRead(f"chest{i + 1}", "output")))))
    for i in range(n):
        st.append(Decl("Entity", f"load{i + 1}", Place("fast-inserter", Num(i), Num(-1))))
        st.append(Assign(f"load{i + 1}", "enable", Bin("<", AllOf(Ref(f"d{i + 1}")), Num(0))))
    return Program(tuple(st))


add("C06", "X-merge-order-as-strings", "fixed",
    "two-chest balanced loader: merge ids crossing 9 -> 10 were ordered as strings, a chest's contents leaked into the other inserter's condition",
    {"prog": _balanced(2, 0), "opts": {}, "vals": [{}, {}],
     "contents": [{"chest1": {"iron-plate": 100}, "chest2": {"iron-plate": 10}}, {"chest1": {"iron-plate": 10}, "chest2": {"iron-plate": 100}}],
     "optimize": True, "sched": {"seed": 0}}, commit="dea542d")



add("C04", "F-feedback-path-skew", "open",
    "m.write(f(m.read())) where the cell enters f at different combinator depths (x + x*2 + 1): the loop is wired without delay "
    "balancing, the short and the long path see the cell at different ticks and no latency L gives x(t+L) = f(x(t)) "
    "(trace 0,1,1,2,4,5,9,14,20,33 for f = 3x+1); same with --no-optimize; uses at equal depth (x*2 + x*3) are right",
    {"prog": Program((MemDecl("m", "signal-M"), S("one", "signal-O", 1),
                      Write("m", Bin("+", Bin("+", MemRead("m"), Bin("*", MemRead("m"), Num(2))), Ref("one")), None),
                      Decl("Signal", "r0", MemRead("m")))),
     "opts": {}, "vals": [{"one": 1}], "optimize": True, "sched": {"seed": 0}}, trigger="feedback-path-skew")



add("C01", "X-inline-steals-comparison", "fixed",
    "Signal cq = in3 <= -12; lq.enable = cq; Signal wq = cq + 1; - the comparison was inlined into the lamp and removed, wq computed 0 + 1",
    case01([Decl("Signal", "in3", Num(0)), Decl("Signal", "cq", Bin("<=", Ref("in3"), Num(-12))),
            Decl("Entity", "lq", Place("small-lamp", Num(40), Num(40))), Assign("lq", "enable", Ref("cq")),
            Decl("Signal", "wq", Bin("+", Ref("cq"), Num(1)))], [{"in3": -2147483647}, {"in3": 5}]), commit="2318b67")


add("C01", "X-int-expr-left-type", "fixed",
    "Signal v = 4 + 3 + in3 was carried on a fresh implicit signal instead of in3's signal-X (folded Int OP Int came back as an implicit constant signal)",
    case01([S("in3", "signal-X", 0), Decl("Signal", "v3", Bin("+", Bin("+", Num(4), Num(3)), Ref("in3")))], [{"in3": 34652}, {"in3": -2}]),
    commit="7b61e08")
add("C01", "X-const-cond-typed-expr", "fixed",
    "(a != -12) : ((\"copper-plate\", 9) < 10 : ((\"iron-plate\", 28) OR (\"signal-Z\", 6))) lost the iron-plate type (only a plain typed literal kept it)",
    case01([S("a", "signal-A", 5), Decl("Signal", "v", Cond(Bin("!=", Ref("a"), Num(-12)),
            Paren(Cond(Bin("<", SigLit("copper-plate", Num(9)), Num(10)), Paren(Bin("OR", SigLit("iron-plate", Num(28)), SigLit("signal-Z", Num(6))))))))],
           [{"a": 5}, {"a": -12}]), commit="f913abc")


add("C03", "X-value-carrying-enable", "fixed",
    "m.write(v, when=(e2 > 19) : e1) never wrote: the enable's copy-count decider was retyped to signal-W in place and read signal-W from its own input",
    {"prog": Program((S("d1", "signal-C", 0), S("e1", "copper-plate", 0), S("e2", "signal-A", 0), MemDecl("m1", "signal-1"),
                      Write("m1", Proj(Ref("d1"), "signal-1"), Cond(Bin(">", Ref("e2"), Num(19)), Ref("e1"))),
                      Decl("Signal", "r2", MemRead("m1")))),
     "hist": [["d1", 7], ["e1", 1], ["e2", 20], ["d1", 9], ["e2", 0], ["d1", 4]], **OPT}, commit="f6718d2")


add("C01", "X-not-of-decided-chain", "fixed",
    "!(v3 < 0 || 0 >= (\"iron-plate\", 0)) gave 1: the chain is decided at compile time and '!' compared two constants in a decider",
    case01([Decl("Signal", "v3", Num(0)), Decl("Signal", "v6", Un("!", Paren(Bin("||", Bin("<", Ref("v3"), Num(0)), Bin(">=", Num(0), SigLit("iron-plate", Num(0)))))))],
           [{"v3": 0}, {"v3": -4}]), commit="2ebeee3")
add("C02", "X-selected-member-colour", "fixed",
    "Bundle b3 = (in3 == 0) : b1; Signal s1 = b1[\"signal-C\"] > 0; read red while the gate had moved b1 to green",
    case01([S("in1", "signal-check", 0), Decl("Signal", "in3", Num(0)),
            Decl("Bundle", "b1", BLit((SigLit("stone", Num(0)), SigLit("signal-C", Num(1)), Ref("in1")))),
            Decl("Bundle", "b3", Cond(Bin("==", Ref("in3"), Num(0)), Ref("b1"))),
            Decl("Signal", "s1", Bin(">", BSel(Ref("b1"), "signal-C"), Num(0)))], [{"in1": 0, "in3": 0}, {"in1": 3, "in3": 1}]), commit="bac574a")


add("C01", "X-placeholder-signal-name", "fixed",
    "Signal a = 0; Signal v = (b + 1) | a.type; emitted the placeholder '__v1' as a signal name (and registered it process-wide)",
    case01([Decl("Signal", "a", Num(0)), S("b", "signal-B", 3), Decl("Signal", "v", Proj(Paren(Bin("+", Ref("b"), Num(1))), TypeOf("a")))],
           [{"a": 0, "b": 3}, {"a": 2, "b": -5}]), commit="7ccc29a")


add("C01", "X-inline-steals-exported-comparison", "fixed",
    "Signal v2 = v1 >= 0; lr0.enable = v2; Signal v4 = v2; - v4 (an unconsumed alias of the comparison) read nothing after the comparison was inlined into the lamp",
    case01([Decl("Signal", "in1", Num(0)), Decl("Signal", "v1", Ref("in1")), Decl("Signal", "v2", Bin(">=", Ref("v1"), Num(0))),
            Decl("Entity", "lr0", Place("small-lamp", Num(0), Num(0))), Assign("lr0", "enable", Ref("v2")), Decl("Signal", "v4", Ref("v2"))],
           [{"in1": 0}, {"in1": -3}]), commit="a3ea559")


add("C01", "X-const-false-cond-type", "fixed",
    "Signal v1 = (0 < 0) : (\"signal-Y\", 0); Signal v2 = v1 + (\"stone\", 1); carried v2 on an implicit signal instead of signal-Y",
    case01([Decl("Signal", "v1", Cond(Bin("<", Num(0), Num(0)), SigLit("signal-Y", Num(0)))),
            Decl("Signal", "v2", Bin("+", Ref("v1"), SigLit("stone", Num(1))))], [{}]), commit="2139bd8")
add("C01", "X-chain-copies-untyped-folded-value", "fixed",
    "(in2 >= 0 && in1 >= 0) : ((\"signal-red\", 0) <= 0 : 1) output nothing: the decider copied signal-red while the folded 1 sat on an implicit signal",
    case01([Decl("Signal", "in1", Num(0)), Decl("Signal", "in2", Num(0)),
            Decl("Signal", "v1", Cond(Bin("&&", Bin(">=", Ref("in2"), Num(0)), Bin(">=", Ref("in1"), Num(0))),
                                       Paren(Cond(Bin("<=", SigLit("signal-red", Num(0)), Num(0)), Num(1)))))],
           [{"in1": 0, "in2": 0}, {"in1": -1, "in2": 0}]), commit="2139bd8")
add("C01", "X-fold-true-copy-decider", "fixed",
    "(v2 != -7) : v1 with v2 folded to a constant became the constant 1 instead of v1 (constant propagation ignored the copied output value)",
    case01([Decl("Signal", "in1", Num(0)), Decl("Signal", "in2", Num(0)),
            Decl("Signal", "v1", Bin("+", Proj(Ref("in2"), "steel-plate"), Num(3))),
            Decl("Signal", "v2", Bin("AND", Proj(Num(100), "electronic-circuit"), Num(2))),
            Decl("Signal", "v3", Bin(">>", Bin("*", Ref("in1"), Ref("in1")), Bin("AND", Paren(Cond(Bin("!=", Ref("v2"), Num(-7)), Ref("v1"))), Num(31))))],
           [{"in1": 5, "in2": 0}, {"in1": 7, "in2": -2}]), commit="dd1c5f3")


add("C15", "X-true-copy-decider-kept", "fixed",
    "f1(8, in1, 8) with body 'Signal w = p0 * p2; Signal t1 = p1 > p2; return w >= 7 : t1;' returned 0: the decider of a condition decided by constant propagation cannot compare two constants",
    {"prog": Program((S("in1", "iron-plate", 5),
        Func("f1", (("Signal", "p0"), ("Signal", "p1"), ("int", "p2")),
             (Decl("Signal", "w", Bin("*", Ref("p0"), Ref("p2"))), Decl("Signal", "t1", Bin(">", Ref("p1"), Ref("p2"))),
              Return(Cond(Bin(">=", Ref("w"), Num(7)), Ref("t1"))))),
        Decl("Signal", "r1", Call("f1", (Num(8), Ref("in1"), Num(8)))))),
     "prog2": Program((S("in1", "iron-plate", 5), Decl("Signal", "w_c1", Bin("*", Num(8), Num(8))), Decl("Signal", "t1_c1", Bin(">", Ref("in1"), Num(8))),
        Decl("Signal", "r1", Cond(Bin(">=", Ref("w_c1"), Num(7)), Ref("t1_c1"))))),
     "vals": [{"in1": 12}, {"in1": 3}], "optimize": True, "sched": {"seed": 0}, "opts": {}}, commit="a1251ad")


add("C18", "X-pole-neighbour-slots", "fixed",
    "--power-poles substation: medium relay poles out of their own reach used up a substation's five neighbour slots, the next substation 18 tiles away stayed unconnected (two electric networks)",
    ser.dec(json.load(open(os.path.join(ROOT, "tools", "cases", "C18-pole-neighbour-slots.json")))), commit="c5a7c30",
    also=["power:unpowered:substation"])  # the same layout also shows the open finding F-pole-coverage


add("C01", "X-merged-constant-vanishes", "fixed",
    "Signal v1 = (1 | in1.type) + in1; read in1: the projected 1 joins in1 by a wire merge and was never given a combinator",
    case01([S("in1", "signal-A", 0), Decl("Signal", "v1", Bin("+", Paren(Proj(Num(1), TypeOf("in1"))), Ref("in1")))],
           [{"in1": 0}, {"in1": 41}]), commit="9a62408")


def main():
    import importlib

    os.makedirs(os.path.join(ROOT, "witnesses"), exist_ok=True)
    path = os.path.join(ROOT, "known_findings.json")
    existing = json.load(open(path)) if os.path.exists(path) else {"findings": []}
    keep = [e for e in existing["findings"] if e["id"] not in {f["id"] for f in FINDINGS}]
    out = []
    known.strict(True)
    for f in FINDINGS:
        mod = importlib.import_module(f"fv.props.{f['property'].lower()}")
        res = mod.run_case(f["case"])
        sigs = [x["sig"] for x in res.get("failures", [])]
        wpath = f"witnesses/{f['property']}-{f['id']}.json"
        sig = sigs[0] if sigs else "(passes on the repaired tree)"
        with open(os.path.join(ROOT, wpath), "w") as fh:
            json.dump({"property": f["property"], "sig": sig, "detail": (res.get("failures") or [{}])[0].get("detail"),
                       "case": ser.enc(f["case"])}, fh, indent=1, sort_keys=True, default=str)
        ent = {"id": f["id"], "property": f["property"], "status": f["status"], "what": f["what"], "witness": wpath}
        if f["commit"]:
            ent["commit"] = f["commit"]
        if f["status"] == "fixed":
            ent["record"] = f"fixed: property={f['property']} {f['commit']} {f['what']}"
        if f["trigger"]:
            ent["trigger"] = f["trigger"]
        if f["also"] or len(sigs) > 1:
            ent["also"] = sorted(set(f["also"]) | (set(sigs[1:]) if f["status"] == "open" else set()))
        out.append(ent)
        print(f"{f['id']:28s} {f['status']:6s} discard={res.get('discard')} sigs={sigs}")
    with open(path, "w") as fh:
        json.dump({"findings": keep + out}, fh, indent=1)


if __name__ == "__main__":
    main()
