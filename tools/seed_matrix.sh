#!/bin/sh
# usage: tools/seed_matrix.sh [out-file]   (runs every seeded change against its own check at the quick tier,
# plus the cross pairs listed below; applies each patch to /repo and undoes it straight afterwards)
OUT="${1:-/tmp/seed_matrix.txt}"
cd /verif || exit 2
: > "$OUT"
if ! git -C /repo diff --quiet; then echo "/repo has uncommitted changes"; exit 2; fi
CROSS="C01:C10 C07:C01 C18:C08 C19:C06 C16:C15 C08:C12 C02:C06 C20:C15"
for d in seeded/*/; do
  id=$(basename "$d" | cut -c1-3)
  checks="$id"
  for p in $CROSS; do [ "${p%%:*}" = "$id" ] && checks="$checks ${p##*:}"; done
  git -C /repo apply "$(realpath "$d")/patch.diff" || { echo "$(basename $d) PATCH-DOES-NOT-APPLY" >> "$OUT"; continue; }
  for c in $checks; do
    res=$(PYTHONPATH=/repo:/verif PYTHONHASHSEED=0 /venv/bin/python -m fv.run "$c" --tier quick --no-evidence 2>&1 | grep -v "^KNOWN")
    n=$(echo "$res" | grep -c "^VIOLATION")
    line=$(echo "$res" | grep "evaluations=" | tail -1)
    echo "$(basename $d) check=$c violations=$n | $line" >> "$OUT"
  done
  git -C /repo checkout -- .
done
echo MATRIX-DONE >> "$OUT"
