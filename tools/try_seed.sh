#!/bin/sh
# usage: tools/try_seed.sh <seeded dir> <check id> [examples]
# Applies a seeded change to /repo, runs one check against it, and undoes it straight afterwards.
D="$1"; ID="$2"; N="${3:-}"
cd /verif || exit 2
if ! git -C /repo diff --quiet; then echo "/repo has uncommitted changes"; exit 2; fi
git -C /repo apply "$(cd /verif && realpath "$D")/patch.diff" || { echo "patch does not apply"; exit 2; }
if [ -n "$N" ]; then EX="--examples $N"; else EX=""; fi
PYTHONPATH=/repo:/verif /venv/bin/python -m fv.run "$ID" --tier quick --no-evidence $EX 2>&1 | grep -v "^KNOWN" | tail -4
RC=$?
git -C /repo checkout -- .
exit 0
